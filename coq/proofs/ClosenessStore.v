(* Proofs about the record store's farthest-record bookkeeping and about
   get_closest_k_value_local_peers in model/Closeness.v (C11, round 5). *)
From Coq Require Import List NArith Bool Lia Permutation Sorted Arith ZifyBool ZifyNat ZifyN.
From V Require Import lib.Strs lib.XorMetric lib.Sha256 gen.Consts model.Closeness proofs.Closeness proofs.ClosenessSched.
Import ListNotations.
Open Scope N_scope.

(* ================================================================== the record store *)

Section StoreProofs.
  Variable dk : bytes -> N.

  (* farthest_record is a held key at maximal distance (None only for an empty store) *)
  Definition far_ok (held : list bytes) (far : far_t) : Prop :=
    match far with
    | Some (k, d) => In k held /\ d = dk k /\ forall k', In k' held -> dk k' <= d
    | None => held = []
    end.

  Lemma mem_key_in k l : mem_key k l = true <-> In k l.
  Proof.
    unfold mem_key. rewrite existsb_exists. split.
    - intros (y & Hy & E). apply bytes_eqb_eq in E. subst. exact Hy.
    - intros Hi. exists k. split; [exact Hi|apply bytes_eqb_eq; reflexivity].
  Qed.

  Lemma remove_key_in k l x : In x (remove_key k l) <-> In x l /\ x <> k.
  Proof.
    unfold remove_key. rewrite filter_In, negb_true_iff. split; intros [Hi Hn]; split; try exact Hi.
    - intros ->. assert (bytes_eqb k k = true) by (apply bytes_eqb_eq; reflexivity). congruence.
    - destruct (bytes_eqb x k) eqn:E; [apply bytes_eqb_eq in E; contradiction|reflexivity].
  Qed.

  Definition far_pick (acc : far_t) (k : bytes) : far_t :=
    match acc with
    | None => Some (k, dk k)
    | Some (_, d) => if d <=? dk k then Some (k, dk k) else acc
    end.

  Lemma far_pick_ok done acc k : far_ok done acc -> far_ok (done ++ [k]) (far_pick acc k).
  Proof.
    intros Hok. destruct acc as [[fk fd]|]; cbn [far_pick far_ok] in *.
    - destruct Hok as (Hin & -> & Hmax). destruct (N.leb_spec (dk fk) (dk k)) as [Hle|Hgt]; cbn [far_ok].
      + split; [apply in_or_app; right; left; reflexivity|]. split; [reflexivity|].
        intros k' Hk'. apply in_app_or in Hk' as [Hk'|[<-|[]]]; [specialize (Hmax k' Hk'); lia|lia].
      + split; [apply in_or_app; left; exact Hin|]. split; [reflexivity|].
        intros k' Hk'. apply in_app_or in Hk' as [Hk'|[<-|[]]]; [apply Hmax, Hk'|lia].
    - subst done. cbn [app]. split; [left; reflexivity|]. split; [reflexivity|].
      intros k' [<-|[]]. lia.
  Qed.

  Lemma calc_farthest_ok held : far_ok held (calc_farthest dk held).
  Proof.
    unfold calc_farthest. change (fun acc k => match acc with
                            | None => Some (k, dk k)
                            | Some (_, d) => if d <=? dk k then Some (k, dk k) else acc
                            end) with far_pick.
    assert (G : forall l done acc, far_ok done acc -> far_ok (done ++ l) (fold_left far_pick l acc)).
    { induction l as [|k l IH]; intros done acc Hok; cbn [fold_left]; [rewrite app_nil_r; exact Hok|].
      replace (done ++ k :: l) with ((done ++ [k]) ++ l) by (rewrite <- app_assoc; reflexivity).
      apply IH, far_pick_ok, Hok. }
    apply (G held [] None). reflexivity.
  Qed.

  Lemma store_remove_ok k held far : far_ok held far ->
    far_ok (fst (store_remove dk k (held, far))) (snd (store_remove dk k (held, far))).
  Proof.
    intros Hok. unfold store_remove. cbn [fst snd]. destruct far as [[fk fd]|]; cbn [far_ok] in *.
    - destruct (bytes_eqb fk k) eqn:E; [apply calc_farthest_ok|].
      destruct Hok as (Hin & -> & Hmax). cbn [far_ok]. split.
      + apply remove_key_in. split; [exact Hin|]. intros ->.
        assert (bytes_eqb k k = true) by (apply bytes_eqb_eq; reflexivity). congruence.
      + split; [reflexivity|]. intros k' Hk'. apply remove_key_in in Hk'. apply Hmax. tauto.
    - subst held. reflexivity.
  Qed.

  Lemma store_mark_ok k held far : far_ok held far ->
    far_ok (fst (store_mark_as_stored dk k (held, far))) (snd (store_mark_as_stored dk k (held, far))).
  Proof.
    intros Hok. unfold store_mark_as_stored. cbn [fst snd].
    set (held' := if mem_key k held then held else held ++ [k]).
    assert (Hk : In k held').
    { subst held'. destruct (mem_key k held) eqn:E; [apply mem_key_in; exact E|apply in_or_app; right; left; reflexivity]. }
    assert (Hsub : forall x, In x held' -> In x held \/ x = k).
    { subst held'. destruct (mem_key k held); intros x Hx; [left; exact Hx|].
      apply in_app_or in Hx as [Hx|[<-|[]]]; auto. }
    assert (Hsup : forall x, In x held -> In x held').
    { subst held'. destruct (mem_key k held); intros x Hx; [exact Hx|apply in_or_app; left; exact Hx]. }
    destruct far as [[fk fd]|]; cbn [far_ok] in *.
    - destruct Hok as (Hin & -> & Hmax). destruct (N.ltb_spec (dk fk) (dk k)) as [Hlt|Hge]; cbn [far_ok].
      + split; [exact Hk|]. split; [reflexivity|]. intros x Hx. destruct (Hsub x Hx) as [Hx' | ->]; [specialize (Hmax x Hx'); lia|lia].
      + split; [apply Hsup, Hin|]. split; [reflexivity|]. intros x Hx. destruct (Hsub x Hx) as [Hx' | ->]; [apply Hmax, Hx'|exact Hge].
    - subst held. split; [exact Hk|]. split; [reflexivity|].
      intros x Hx. destruct (Hsub x Hx) as [[] | ->]. lia.
  Qed.

  Lemma store_step_ok max_records st held far : far_ok held far ->
    far_ok (fst (fst (store_step dk max_records (held, far) st))) (snd (fst (store_step dk max_records (held, far) st))).
  Proof.
    intros Hok. destruct st as [k|k|k|]; cbn [store_step]; [|exact Hok| |].
    - unfold store_prune. cbn [fst snd].
      destruct (N.of_nat (List.length held) <? max_records).
      + cbn [fst]. apply store_mark_ok, Hok.
      + destruct far as [[fk fd]|].
        * destruct (fd <? dk k); cbn [fst snd]; [exact Hok|].
          pose proof (store_remove_ok fk held (Some (fk, fd)) Hok) as Hr.
          destruct (store_remove dk fk (held, Some (fk, fd))) as [h' f']. cbn [fst snd] in *.
          apply store_mark_ok, Hr.
        * cbn [fst]. apply store_mark_ok, Hok.
    - cbn [fst]. apply store_remove_ok, Hok.
    - cbn [fst snd]. apply calc_farthest_ok.
  Qed.

  (* every history from the empty store, restarts included *)
  Lemma store_run_ok max_records steps :
    far_ok (fst (store_run dk max_records steps)) (snd (store_run dk max_records steps)).
  Proof.
    unfold store_run.
    assert (G : forall steps s, far_ok (fst s) (snd s) ->
      far_ok (fst (fold_left (fun s st => fst (store_step dk max_records s st)) steps s))
             (snd (fold_left (fun s st => fst (store_step dk max_records s st)) steps s))).
    { clear steps. induction steps as [|st r IH]; intros s Hs; cbn [fold_left]; [exact Hs|].
      apply IH. destruct s as [held far]. apply store_step_ok. exact Hs. }
    apply (G steps ([], None)). reflexivity.
  Qed.

  (* at capacity: refused exactly when every held record is strictly nearer; otherwise exactly a
     farthest held record makes room *)
  Lemma store_admission_exact_lemma max_records k held far : far_ok held far ->
    max_records <= N.of_nat (List.length held) -> held <> [] ->
    match store_prune dk max_records k (held, far) with
    | None => forall k', In k' held -> dk k' < dk k
    | Some s' =>
        exists fk, In fk held /\ (forall k', In k' held -> dk k' <= dk fk) /\ dk k <= dk fk /\
                   fst s' = remove_key fk held
    end.
  Proof.
    intros Hok Hfull Hne. unfold store_prune. cbn [fst snd].
    destruct (N.ltb_spec (N.of_nat (List.length held)) max_records) as [Hlt|_]; [lia|].
    destruct far as [[fk fd]|]; cbn [far_ok] in Hok; [|contradiction].
    destruct Hok as (Hin & -> & Hmax).
    destruct (N.ltb_spec (dk fk) (dk k)) as [Hlt|Hge].
    - intros k' Hk'. specialize (Hmax k' Hk'). lia.
    - exists fk. split; [exact Hin|]. split; [exact Hmax|]. split; [exact Hge|reflexivity].
  Qed.

  (* the equality case: a record at exactly the farthest record's distance -- in particular a re-put of the
     farthest record itself, or of any held record -- is never refused *)
  Lemma store_admits_not_farther max_records k held far : far_ok held far ->
    (exists k', In k' held /\ dk k <= dk k') ->
    store_prune dk max_records k (held, far) <> None.
  Proof.
    intros Hok (k' & Hk' & Hle). unfold store_prune. cbn [fst snd].
    destruct (N.of_nat (List.length held) <? max_records); [discriminate|].
    destruct far as [[fk fd]|]; cbn [far_ok] in Hok; [|discriminate].
    destruct Hok as (_ & -> & Hmax). specialize (Hmax k' Hk').
    destruct (N.ltb_spec (dk fk) (dk k)); [lia|discriminate].
  Qed.

  Lemma store_below_capacity_admits max_records k s :
    N.of_nat (List.length (fst s)) < max_records -> store_prune dk max_records k s = Some s.
  Proof. intros Hlt. unfold store_prune. destruct (N.ltb_spec (N.of_nat (List.length (fst s))) max_records); [reflexivity|lia]. Qed.

  (* the table-of-distances evaluation used by the case files *)
  Lemma calc_farthest_ext dk' held : (forall k, In k held -> dk k = dk' k) ->
    calc_farthest dk held = calc_farthest dk' held.
  Proof.
    unfold calc_farthest.
    assert (G : forall l acc, (forall k, In k l -> dk k = dk' k) ->
      fold_left (fun acc k => match acc with None => Some (k, dk k) | Some (_, d) => if d <=? dk k then Some (k, dk k) else acc end) l acc =
      fold_left (fun acc k => match acc with None => Some (k, dk' k) | Some (_, d) => if d <=? dk' k then Some (k, dk' k) else acc end) l acc).
    { induction l as [|k l IH]; intros acc Hext; cbn [fold_left]; [reflexivity|].
      rewrite (Hext k (or_introl eq_refl)). apply IH. intros x Hx. apply Hext. right. exact Hx. }
    apply G.
  Qed.
End StoreProofs.

Lemma store_step_ext dk dk' max_records st held far :
  (forall k, In k (match st with SPut k | SPutSame k | SRemove k => [k] | SRestart => [] end ++ held) -> dk k = dk' k) ->
  store_step dk max_records (held, far) st = store_step dk' max_records (held, far) st.
Proof.
  intros Hext.
  assert (Hh : forall l, (forall x, In x l -> In x held) -> calc_farthest dk l = calc_farthest dk' l).
  { intros l Hl. apply calc_farthest_ext. intros x Hx. apply Hext. apply in_or_app. right. apply Hl, Hx. }
  assert (Hrm : forall fk s, (forall x, In x (fst s) -> In x held) -> store_remove dk fk s = store_remove dk' fk s).
  { intros fk [h f] Hs. unfold store_remove. cbn [fst snd] in *. f_equal.
    destruct f as [[fk' fd]|]; [|reflexivity]. destruct (bytes_eqb fk' fk); [|reflexivity].
    apply Hh. intros x Hx. apply remove_key_in in Hx. apply Hs. tauto. }
  destruct st as [k|k|k|]; cbn [store_step]; [|reflexivity| |].
  - assert (Ek : dk k = dk' k) by (apply Hext; left; reflexivity).
    unfold store_prune. cbn [fst snd].
    destruct (N.of_nat (List.length held) <? max_records).
    + unfold store_mark_as_stored. cbn [fst snd]. rewrite Ek. reflexivity.
    + destruct far as [[fk fd]|].
      * rewrite Ek. destruct (fd <? dk' k); [reflexivity|].
        rewrite Hrm by (cbn [fst]; auto).
        unfold store_mark_as_stored. rewrite Ek. reflexivity.
      * unfold store_mark_as_stored. cbn [fst snd]. rewrite Ek. reflexivity.
  - rewrite Hrm by (cbn [fst]; auto). reflexivity.
  - cbn [fst]. rewrite (Hh held) by auto. reflexivity.
Qed.

Section StoreTable.
  Variable H : bytes -> N.

  Lemma agree_store_hist_sound self_peer max_records keys steps :
    agree_store_hist H self_peer max_records keys steps = true ->
    forall st pre_held pre_far res post_held post_far,
      In (st, (pre_held, pre_far), res, (post_held, post_far)) steps ->
      agree_store_step (key_dist H self_peer) max_records st pre_held pre_far res post_held post_far = true.
  Proof.
    unfold agree_store_hist. cbn zeta. rewrite forallb_forall.
    intros Hall st pre_held pre_far res post_held post_far Hin. specialize (Hall _ Hin).
    apply andb_true_iff in Hall as [Hk Hs]. rewrite forallb_forall in Hk.
    rewrite <- Hs. unfold agree_store_step.
    rewrite (store_step_ext (key_dist H self_peer) (lookup_dist (dist_table H self_peer keys)) max_records st pre_held pre_far);
      [reflexivity|].
    intros k Hkin. symmetry. apply lookup_dist_table. apply mem_key_in. apply Hk.
    unfold store_record_keys. exact Hkin.
  Qed.
End StoreTable.

(* the C11-10 shape: two far records, restart while not full, fill up with nearer ones, then one in between *)
Example store_restart_example :
  let dk := key_dist sha256 ex_self in
  let order := sort_on dk (map ex_key [1; 2; 3; 4; 5; 6; 7; 8]) in
  let k := fun i => nth i order [] in
  let s := store_run dk 4 [SPut (k 7%nat); SPut (k 5%nat); SRestart; SPut (k 0%nat); SPut (k 1%nat)] in
  snd s = Some (k 7%nat, dk (k 7%nat)) /\
  (* full; a record between the two groups is admitted and evicts the true farthest *)
  (let '(s', code) := store_step dk 4 s (SPut (k 3%nat)) in
   code = 0 /\ same_keys (fst s') [k 0%nat; k 1%nat; k 3%nat; k 5%nat] = true /\ snd s' = Some (k 5%nat, dk (k 5%nat))) /\
  (* a record beyond the farthest is refused *)
  snd (store_step dk 4 s (SPut (k 6%nat))) = 0 /\ snd (store_step dk 4 (fst (store_step dk 4 s (SPut (k 3%nat)))) (SPut (k 6%nat))) = 1.
Proof. vm_compute. repeat split; reflexivity. Qed.

(* the equality case at capacity: re-putting the farthest record itself is admitted (it takes its own place);
   only a strictly farther record is refused *)
Example store_reput_farthest_example :
  let dk := key_dist sha256 ex_self in
  let order := sort_on dk (map ex_key [1; 2; 3; 4; 5; 6; 7; 8]) in
  let k := fun i => nth i order [] in
  let s := store_run dk 3 [SPut (k 0%nat); SPut (k 5%nat); SPut (k 2%nat)] in
  snd s = Some (k 5%nat, dk (k 5%nat)) /\
  (let '(s', code) := store_step dk 3 s (SPut (k 5%nat)) in
   code = 0 /\ same_keys (fst s') [k 0%nat; k 2%nat; k 5%nat] = true /\ snd s' = Some (k 5%nat, dk (k 5%nat))) /\
  snd (store_step dk 3 s (SPut (k 6%nat))) = 1.
Proof. vm_compute. repeat split; reflexivity. Qed.

(* ================================================================== get_closest_k_value_local_peers *)

Section PermInvariance.
  Context {A : Type}.
  Variable key : A -> N.

  Lemma keyed_perm d l l' : Permutation l l' -> Permutation (keyed key d l) (keyed key d l').
  Proof.
    unfold keyed. induction 1 as [|x l l' Hp IH|x y l|l l' l'' _ IH1 _ IH2]; cbn [filter].
    - constructor.
    - destruct (key x =? d); [constructor; exact IH|exact IH].
    - destruct (key x =? d), (key y =? d); try reflexivity. apply perm_swap.
    - eapply Permutation_trans; eassumption.
  Qed.

  Lemma keyed_at_most_one d l : NoDup l ->
    (forall p q, In p l -> In q l -> key p = key q -> p = q) ->
    keyed key d l = [] \/ exists x, keyed key d l = [x].
  Proof.
    intros Hnd Hinj.
    assert (Hn : NoDup (keyed key d l)) by (apply NoDup_filter, Hnd).
    destruct (keyed key d l) as [|x [|y r]] eqn:E; [left; reflexivity|right; eexists; reflexivity|].
    exfalso.
    assert (Hx : In x (keyed key d l)) by (rewrite E; left; reflexivity).
    assert (Hy : In y (keyed key d l)) by (rewrite E; right; left; reflexivity).
    apply keyed_in in Hx as [Hx1 Hx2]. apply keyed_in in Hy as [Hy1 Hy2].
    assert (x = y) by (apply Hinj; [exact Hx1|exact Hy1|congruence]). subst y.
    inversion Hn as [|? ? Hni _]; subst. apply Hni. left. reflexivity.
  Qed.

  (* with pairwise different keys the sorted arrangement does not depend on the order of the input *)
  Lemma sort_by_perm_invariant l l' : Permutation l l' -> NoDup l ->
    (forall p q, In p l -> In q l -> key p = key q -> p = q) ->
    sort_by key l = sort_by key l'.
  Proof.
    intros Hp Hnd Hinj. symmetry. apply sort_by_unique; [apply sort_by_sorted|].
    intros d. rewrite sort_by_stable.
    pose proof (keyed_perm d l l' Hp) as Hk.
    destruct (keyed_at_most_one d l Hnd Hinj) as [E|[x E]]; rewrite E in *.
    - apply Permutation_nil in Hk. exact Hk.
    - apply Permutation_length_1_inv in Hk. exact Hk.
  Qed.
End PermInvariance.

Lemma nth_firstn_lt {A} (d : A) : forall n i l, (i < n)%nat -> nth i (firstn n l) d = nth i l d.
Proof.
  induction n as [|n IH]; intros i l Hlt; [lia|].
  destruct l as [|x l]; [destruct i; reflexivity|]. destruct i as [|i]; [reflexivity|].
  cbn [firstn nth]. apply IH. lia.
Qed.

Section ClosestK.
  Variable H : bytes -> N.

  Definition self_dist (self_peer p : bytes) : N := distance H (from_peer self_peer) (from_peer p).

  Lemma closest_k_head self_peer k_value table : 1 <= k_value ->
    closest_k_value_local_peers H self_peer k_value table =
    self_peer :: firstn (N.to_nat (k_value - 1)) (sort_by (self_dist self_peer) table).
  Proof.
    intros Hk. unfold closest_k_value_local_peers. rewrite sort_on_eq.
    replace (N.to_nat k_value) with (S (N.to_nat (k_value - 1))) by lia. reflexivity.
  Qed.

  Lemma closest_k_sorted self_peer k_value table :
    sorted_by (self_dist self_peer) (closest_k_value_local_peers H self_peer k_value table).
  Proof.
    unfold closest_k_value_local_peers. rewrite sort_on_eq. apply sorted_firstn.
    constructor; [apply sort_by_sorted|].
    rewrite Forall_forall. intros z _. unfold key_le, self_dist, distance. rewrite N.lxor_nilpotent. apply N.le_0_l.
  Qed.

  (* insertion order never matters *)
  Lemma closest_k_perm_invariant self_peer k_value table table' :
    Permutation table table' -> NoDup table ->
    (forall p q, In p table -> In q table -> self_dist self_peer p = self_dist self_peer q -> p = q) ->
    closest_k_value_local_peers H self_peer k_value table = closest_k_value_local_peers H self_peer k_value table'.
  Proof.
    intros Hp Hnd Hinj. unfold closest_k_value_local_peers. rewrite !sort_on_eq.
    f_equal. f_equal. exact (sort_by_perm_invariant (self_dist self_peer) table table' Hp Hnd Hinj).
  Qed.

  (* the consumers that rely on the order: the close group is ourselves plus the CLOSE_GROUP_SIZE-1 nearest,
     and the responsible-range reference (index CLOSE_GROUP_SIZE+1) is the (CLOSE_GROUP_SIZE+1)-th nearest peer *)
  Lemma closest_k_consumers self_peer k_value table : CLOSE_GROUP_SIZE + 2 <= k_value ->
    firstn (N.to_nat CLOSE_GROUP_SIZE) (closest_k_value_local_peers H self_peer k_value table) =
      self_peer :: firstn (N.to_nat (CLOSE_GROUP_SIZE - 1)) (sort_by (self_dist self_peer) table) /\
    nth (N.to_nat (CLOSE_GROUP_SIZE + 1)) (closest_k_value_local_peers H self_peer k_value table) [] =
      nth (N.to_nat CLOSE_GROUP_SIZE) (sort_by (self_dist self_peer) table) [].
  Proof.
    intros Hk. assert (Hc : CLOSE_GROUP_SIZE = 5) by reflexivity.
    unfold closest_k_value_local_peers. rewrite sort_on_eq. split.
    - rewrite firstn_firstn. replace (Nat.min (N.to_nat CLOSE_GROUP_SIZE) (N.to_nat k_value)) with (N.to_nat CLOSE_GROUP_SIZE) by lia.
      replace (N.to_nat CLOSE_GROUP_SIZE) with (S (N.to_nat (CLOSE_GROUP_SIZE - 1))) by lia. reflexivity.
    - rewrite nth_firstn_lt by lia.
      replace (N.to_nat (CLOSE_GROUP_SIZE + 1)) with (S (N.to_nat CLOSE_GROUP_SIZE)) by lia. reflexivity.
  Qed.
End ClosestK.

(* peers sharing a k-bucket inserted farthest-first still come out nearest-first *)
Example closest_k_example :
  let me := sha_peer 9 in
  let table := map sha_peer [1; 2; 3; 4; 5; 6; 7; 8] in
  closest_k_value_local_peers sha256 me 5 table = closest_k_value_local_peers sha256 me 5 (rev table) /\
  List.length (closest_k_value_local_peers sha256 me 5 table) = 5%nat /\
  hd [] (closest_k_value_local_peers sha256 me 5 table) = me.
Proof. vm_compute. repeat split; reflexivity. Qed.

(* ================================================================== respond_x_closest_record_proof *)

Section ChunkProofs.
  Variable H : bytes -> N.

  Definition target_dist (target : addr) (k : bytes) : N := distance H target (from_record_key k).

  (* filter-then-take: the answers are the min(X, #chunks) nearest CHUNKS in ascending distance, whatever other
     kinds of records lie in between *)
  Lemma x_closest_chunks_spec_lemma target difficulty records :
    let chunks := map fst (filter is_chunk records) in
    let out := x_closest_chunks H target difficulty records in
    out = firstn (N.to_nat (workload_factor difficulty)) (sort_by (target_dist target) chunks) /\
    sorted_by (target_dist target) out /\
    N.of_nat (List.length out) = N.min (workload_factor difficulty) (N.of_nat (List.length chunks)) /\
    (forall k, In k out -> In (k, 0) records) /\
    (exists rest, Permutation (out ++ rest) chunks /\
       forall x y, In x out -> In y rest -> target_dist target x <= target_dist target y).
  Proof.
    cbn zeta. unfold x_closest_chunks. rewrite sort_on_eq.
    set (chunks := map fst (filter is_chunk records)).
    split; [reflexivity|]. split; [apply sorted_firstn, sort_by_sorted|].
    split; [rewrite firstn_length, sort_by_length; lia|]. split.
    - intros k Hk.
      assert (Hin : In k (sort_by (target_dist target) chunks)).
      { rewrite <- (firstn_skipn (N.to_nat (workload_factor difficulty))). apply in_or_app. left. exact Hk. }
      apply sort_by_in in Hin. subst chunks. apply in_map_iff in Hin as ([k' t] & <- & Hf).
      apply filter_In in Hf as [Hr Hc]. unfold is_chunk in Hc. cbn [snd fst] in *. apply N.eqb_eq in Hc. subst t. exact Hr.
    - exists (skipn (N.to_nat (workload_factor difficulty)) (sort_by (target_dist target) chunks)).
      split; [rewrite firstn_skipn; apply sort_by_perm|apply sorted_firstn_le_skipn, sort_by_sorted].
  Qed.
End ChunkProofs.

(* the swapped order is a different function: with a scratchpad among the nearest records it answers fewer
   chunks and leaves out chunks that belong to the X nearest *)
Definition cp_target : addr := AChunk (repeat 7 32).
Definition cp_records : list (bytes * N) :=
  let order := sort_on (fun k => distance sha256 cp_target (from_record_key k)) (map ex_key [1; 2; 3; 4; 5; 6; 7; 8]) in
  map (fun ik => (snd ik, if (fst ik =? 1) || (fst ik =? 3) then 1 else 0))
      (combine [0; 1; 2; 3; 4; 5; 6; 7] order).

Lemma take_then_filter_refuted_lemma :
  exists target difficulty records,
    take_then_filter_chunks sha256 target difficulty records <> x_closest_chunks sha256 target difficulty records /\
    (List.length (take_then_filter_chunks sha256 target difficulty records) <
     List.length (x_closest_chunks sha256 target difficulty records))%nat.
Proof.
  exists cp_target, 5, cp_records. split; [vm_compute; discriminate|vm_compute; lia].
Qed.

Example x_closest_chunks_example :
  List.length (x_closest_chunks sha256 cp_target 5 cp_records) = 5%nat /\
  List.length (take_then_filter_chunks sha256 cp_target 5 cp_records) = 3%nat /\
  List.length (x_closest_chunks sha256 cp_target 2 cp_records) = 2%nat /\
  List.length (x_closest_chunks sha256 cp_target 9 cp_records) = 5%nat.
Proof. vm_compute. repeat split; reflexivity. Qed.
