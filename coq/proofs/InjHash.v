(* Non-vacuity of "the content hash is collision-free" premises: in the model, where digests are
   unbounded numbers, an injective hash exists (std++'s countable encoding of lists of numbers).
   Kept in its own file because it is the only place that uses std++. *)
From stdpp Require Import countable list numbers.
From Coq Require Import NArith List.

Definition inj_hash (x : list N) : N := Npos (encode x).

Lemma inj_hash_inj x y : inj_hash x = inj_hash y -> x = y.
Proof. unfold inj_hash. intros E. injection E as E. apply (inj encode) in E. exact E. Qed.
