(* Proofs about model/ClientRead.v (C15): what chunk_get and the vault readers can return for an
   arbitrary (adversarial) reply of the network. *)
From Coq Require Import List NArith Bool String Lia ZifyBool ZifyN Sorted.
From V Require Import lib.Strs gen.Consts model.ClientRead.
Import ListNotations.
Open Scope N_scope.

(* the wire tags the model depends on are the ones in header.rs *)
Lemma kind_tags_pinned : KIND_CHUNK = 1 /\ KIND_SCRATCHPAD = 5 /\ KIND_CHUNK <> KIND_SCRATCHPAD.
Proof. repeat split; try reflexivity. discriminate. Qed.

(* ---------------------------------------------------------------- equality tests *)

Lemma bytes_eqb_eq (a b : bytes) : bytes_eqb a b = true <-> a = b.
Proof.
  unfold bytes_eqb. revert b. induction a as [|x a IH]; intros [|y b]; cbn [list_eqb]; split;
    intros E; try discriminate; try reflexivity.
  - apply andb_true_iff in E. destruct E as [E1 E2]. apply N.eqb_eq in E1. apply IH in E2. congruence.
  - inversion E; subst. apply andb_true_iff. split. apply N.eqb_refl. apply IH. reflexivity.
Qed.

Lemma ctext_eqb_eq (a b : ctext) : ctext_eqb a b = true <-> a = b.
Proof.
  unfold ctext_eqb. destruct a as [at_ ap au], b as [bt bp bu]. cbn [c_to c_plain c_uid]. split.
  - intros E. apply andb_true_iff in E. destruct E as [E E3]. apply andb_true_iff in E.
    destruct E as [E1 E2]. apply bytes_eqb_eq in E2. apply N.eqb_eq in E3.
    destruct at_ as [x|], bt as [y|]; cbn [option_eqb] in E1; try discriminate.
    + apply N.eqb_eq in E1. congruence.
    + congruence.
  - intros E. inversion E; subst. apply andb_true_iff. split; [apply andb_true_iff; split|].
    + destruct bt; cbn [option_eqb]; [apply N.eqb_refl|reflexivity].
    + apply bytes_eqb_eq. reflexivity.
    + apply N.eqb_refl.
Qed.

(* what "validly signed" means in the symbolic model: the pad carries a signature made by its
   owner over exactly its counter and its encrypted data *)
Lemma is_valid_iff (p : pad) :
  is_valid p = true <->
  exists s, p_sig p = Some s /\ s_by s = p_owner p /\ s_counter s = p_counter p /\ s_ct s = p_ct p.
Proof.
  unfold is_valid. destruct (p_sig p) as [s|]; split.
  - intros E. apply andb_true_iff in E. destruct E as [E E3]. apply andb_true_iff in E.
    destruct E as [E1 E2]. exists s. repeat split; try (apply N.eqb_eq; assumption).
    apply ctext_eqb_eq. assumption.
  - intros (s' & E & E1 & E2 & E3). inversion E; subst s'.
    apply andb_true_iff. split; [apply andb_true_iff; split|]; try (apply N.eqb_eq; assumption).
    apply ctext_eqb_eq. assumption.
  - discriminate.
  - intros (s' & E & _). discriminate.
Qed.

Lemma authentic_iff pk p : authentic pk p = true <-> p_owner p = pk /\ is_valid p = true.
Proof.
  unfold authentic. rewrite andb_true_iff, N.eqb_eq. tauto.
Qed.

(* ---------------------------------------------------------------- what a reply contains *)

Fixpoint pads_of (l : list record) : list pad :=
  match l with
  | [] => []
  | r :: t => match parse_pad r with Some p => p :: pads_of t | None => pads_of t end
  end.

(* well-formed scratchpad versions: records of kind Scratchpad whose body is a pad *)
Fixpoint wf_pads (l : list record) : list pad :=
  match l with
  | [] => []
  | r :: t =>
      match r_hdr r, parse_pad r with
      | Some k, Some p => if k =? KIND_SCRATCHPAD then p :: wf_pads t else wf_pads t
      | _, _ => wf_pads t
      end
  end.

Definition records_of (rp : reply) : list record :=
  match rp with ROk r => [r] | RErr (GSplit m) => m | RErr _ => [] end.

(* every pad some record of the reply deserialises to, whatever its header says *)
Definition all_pads (rp : reply) : list pad := pads_of (records_of rp).
(* the scratchpad versions received: records of kind Scratchpad that deserialise *)
Definition received (rp : reply) : list pad := wf_pads (records_of rp).

Lemma wf_pads_incl l p : In p (wf_pads l) -> In p (pads_of l).
Proof.
  induction l as [|r t IH]; cbn [wf_pads pads_of]; [tauto|].
  destruct (r_hdr r) as [k|], (parse_pad r) as [q|].
  - destruct (k =? KIND_SCRATCHPAD); cbn [In].
    + intros [E|E]; auto.
    + intros E; auto.
  - exact IH.
  - cbn [In]. intros E; auto.
  - exact IH.
Qed.

Lemma pads_of_In l p : In p (pads_of l) <-> exists r, In r l /\ parse_pad r = Some p.
Proof.
  induction l as [|r t IH]; cbn [pads_of].
  - split; [intros []|]. intros (r & [] & _).
  - destruct (parse_pad r) as [q|] eqn:E; cbn [In]; rewrite IH; split.
    + intros [->|(r' & I & P)]; [exists r; auto|exists r'; auto].
    + intros (r' & [->|I] & P); [left; congruence|right; exists r'; auto].
    + intros (r' & I & P); exists r'; auto.
    + intros (r' & [->|I] & P); [congruence|exists r'; auto].
Qed.

Lemma all_some_pads l pads : all_some (map parse_pad l) = Some pads -> pads = pads_of l.
Proof.
  revert pads. induction l as [|r t IH]; cbn [map all_some pads_of]; intros pads E.
  - congruence.
  - destruct (parse_pad r) as [p|]; [|discriminate].
    destruct (all_some (map parse_pad t)) as [ps|]; [|discriminate].
    inversion E; subst. f_equal. apply IH. reflexivity.
Qed.

(* ---------------------------------------------------------------- the stable sort *)

Definition cle (a b : pad) : Prop := p_counter a <= p_counter b.

Lemma insert_pad_In p l x : In x (insert_pad p l) <-> x = p \/ In x l.
Proof.
  induction l as [|q t IH]; cbn [insert_pad In].
  - intuition.
  - destruct (p_counter p <=? p_counter q); cbn [In]; [intuition|]. rewrite IH. intuition.
Qed.

Lemma sort_pads_In l x : In x (sort_pads l) <-> In x l.
Proof.
  unfold sort_pads. induction l as [|q t IH]; cbn [fold_right In]; [tauto|].
  rewrite insert_pad_In, IH. intuition.
Qed.

Lemma insert_pad_sorted p l : StronglySorted cle l -> StronglySorted cle (insert_pad p l).
Proof.
  induction 1 as [|q t S IH F]; cbn [insert_pad].
  - repeat constructor.
  - destruct (p_counter p <=? p_counter q) eqn:E.
    + apply N.leb_le in E. constructor; [constructor; assumption|].
      constructor; [exact E|]. eapply Forall_impl; [|exact F]. unfold cle. intros; lia.
    + apply N.leb_gt in E. constructor; [exact IH|].
      apply Forall_forall. intros x I. apply insert_pad_In in I. destruct I as [->|I].
      * unfold cle. lia.
      * rewrite Forall_forall in F. auto.
Qed.

Lemma sort_pads_sorted l : StronglySorted cle (sort_pads l).
Proof.
  unfold sort_pads. induction l as [|q t IH]; cbn [fold_right]; [constructor|].
  apply insert_pad_sorted. exact IH.
Qed.

Lemma last_some_In l (top : pad) : last (map Some l) None = Some top -> In top l.
Proof.
  induction l as [|q t IH]; [discriminate|]. cbn [map]. destruct t as [|q' t'].
  - cbn. intros E. inversion E. auto.
  - intros E. right. apply IH. exact E.
Qed.

Lemma last_none l : last (map (@Some pad) l) None = None -> l = [].
Proof.
  induction l as [|q t IH]; [reflexivity|]. cbn [map]. destruct t as [|q' t'].
  - cbn. discriminate.
  - intros E. specialize (IH E). discriminate.
Qed.

Lemma last_sorted_max l top :
  StronglySorted cle l -> last (map Some l) None = Some top -> forall x, In x l -> cle x top.
Proof.
  induction 1 as [|q t S IH F]; [discriminate|]. cbn [map]. destruct t as [|q' t'].
  - cbn. intros E x [->|[]]. inversion E. unfold cle. lia.
  - intros E x [->|I].
    + rewrite Forall_forall in F. apply F. apply (last_some_In (q' :: t')). exact E.
    + apply IH; assumption.
Qed.

(* the pad vault_pick returns: authentic, one of the received ones, with the highest counter among
   the authentic ones *)
Lemma vault_pick_spec pk m p :
  vault_pick pk m = inl p ->
  In p (pads_of m) /\ authentic pk p = true /\
  forall q, In q (pads_of m) -> authentic pk q = true -> p_counter q <= p_counter p.
Proof.
  unfold vault_pick. destruct (all_some (map parse_pad m)) as [pads|] eqn:A; [|discriminate].
  apply all_some_pads in A. subst pads.
  set (l := sort_pads (filter (authentic pk) (pads_of m))).
  destruct (last (map Some l) None) as [top|] eqn:L; [|discriminate].
  destruct (filter (fun s => p_counter s =? p_counter top) l) as [|one rest] eqn:Fl; [discriminate|].
  intros E. inversion E; subst one. clear E.
  assert (I : In p (filter (fun s => p_counter s =? p_counter top) l)) by (rewrite Fl; left; reflexivity).
  apply filter_In in I. destruct I as [I C]. apply N.eqb_eq in C.
  unfold l in I. apply -> sort_pads_In in I. apply filter_In in I. destruct I as [I1 I2].
  split; [exact I1|]. split; [exact I2|].
  intros q Q1 Q2. rewrite C.
  apply (last_sorted_max l top (sort_pads_sorted _) L).
  unfold l. apply sort_pads_In. apply filter_In. auto.
Qed.

Lemma vault_pick_none pk m :
  (forall q, In q (pads_of m) -> authentic pk q = false) -> exists e, vault_pick pk m = inr e.
Proof.
  intros N. destruct (vault_pick pk m) as [p|e] eqn:E; [|eauto].
  apply vault_pick_spec in E. destruct E as (I & A & _). rewrite (N p I) in A. discriminate.
Qed.

(* an authentic version among versions that all deserialise is always found *)
Lemma vault_pick_complete pk m q :
  all_some (map parse_pad m) <> None -> In q (pads_of m) -> authentic pk q = true ->
  exists p, vault_pick pk m = inl p.
Proof.
  intros A I Q. unfold vault_pick.
  destruct (all_some (map parse_pad m)) as [pads|] eqn:E; [|congruence].
  apply all_some_pads in E. subst pads.
  set (l := sort_pads (filter (authentic pk) (pads_of m))).
  assert (Il : In q l) by (unfold l; apply sort_pads_In, filter_In; auto).
  destruct (last (map Some l) None) as [top|] eqn:L.
  - pose proof (last_some_In l top L) as It.
    destruct (filter (fun s => p_counter s =? p_counter top) l) as [|one rest] eqn:Fl; [|eauto].
    assert (X : In top (filter (fun s => p_counter s =? p_counter top) l))
      by (apply filter_In; split; [exact It|apply N.eqb_refl]).
    rewrite Fl in X. destruct X.
  - apply last_none in L. rewrite L in Il. destruct Il.
Qed.

(* ---------------------------------------------------------------- the network layer's split handling *)

Lemma split_loop_fix_kind r t best k :
  r_hdr r = Some k -> split_loop None best (r :: t) = split_loop (Some k) best (r :: t).
Proof. intros E. cbn [split_loop]. rewrite E. reflexivity. Qed.

Lemma split_loop_other_kind l k best :
  (k =? KIND_SCRATCHPAD) = false -> split_loop (Some k) best l = best.
Proof.
  intros K. revert best. induction l as [|r t IH]; intros best; cbn [split_loop]; [reflexivity|].
  destruct (r_hdr r) as [k'|]; [|apply IH].
  destruct (negb (k' =? k)); [apply IH|]. rewrite K. apply IH.
Qed.

Definition ole (o : option pad) (b : pad) : Prop :=
  match o with Some x => p_counter x <= p_counter b | None => True end.

Lemma split_loop_scratch l best b :
  split_loop (Some KIND_SCRATCHPAD) best l = Some b ->
  (best = Some b \/ (In b (wf_pads l) /\ is_valid b = true)) /\
  ole best b /\
  forall q, In q (wf_pads l) -> is_valid q = true -> p_counter q <= p_counter b.
Proof.
  revert best. induction l as [|r t IH]; intros best; cbn [split_loop wf_pads].
  - intros ->. split; [left; reflexivity|]. split; [cbn; lia|]. intros q [].
  - destruct (r_hdr r) as [k|] eqn:Hd.
    2:{ intros E. destruct (IH _ E) as (A & B & C). destruct (parse_pad r); auto. }
    destruct (k =? KIND_SCRATCHPAD) eqn:K; cbn [negb].
    2:{ intros E. destruct (IH _ E) as (A & B & C). destruct (parse_pad r); auto. }
    rewrite N.eqb_refl. destruct (parse_pad r) as [p|] eqn:P.
    2:{ intros E. destruct (IH _ E) as (A & B & C). auto. }
    destruct (is_valid p) eqn:V; cbn [negb].
    2:{ intros E. destruct (IH _ E) as (A & B & C). split; [|split]; auto.
        - destruct A as [A|[A1 A2]]; [auto|right; split; [right; exact A1|exact A2]].
        - intros q [->|I] Vq; [congruence|auto]. }
    destruct best as [old|].
    + destruct (p_counter p <=? p_counter old) eqn:Le.
      * apply N.leb_le in Le. intros E. destruct (IH _ E) as (A & B & C). split; [|split]; auto.
        -- destruct A as [A|[A1 A2]]; [auto|right; split; [right; exact A1|exact A2]].
        -- intros q [->|I] Vq; [cbn in B; lia|auto].
      * apply N.leb_gt in Le. intros E. destruct (IH _ E) as (A & B & C). cbn in B.
        split; [|split].
        -- right. destruct A as [A|[A1 A2]].
           ++ inversion A; subst b. split; [left; reflexivity|exact V].
           ++ split; [right; exact A1|exact A2].
        -- cbn. lia.
        -- intros q [->|I] Vq; [exact B|auto].
    + intros E. destruct (IH _ E) as (A & B & C). cbn in B. split; [|split].
      * right. destruct A as [A|[A1 A2]].
        -- inversion A; subst b. split; [left; reflexivity|exact V].
        -- split; [right; exact A1|exact A2].
      * exact I.
      * intros q [->|I'] Vq; [exact B|auto].
Qed.

Lemma split_loop_spec l b :
  split_loop None None l = Some b ->
  In b (wf_pads l) /\ is_valid b = true /\
  forall q, In q (wf_pads l) -> is_valid q = true -> p_counter q <= p_counter b.
Proof.
  induction l as [|r t IH]; [discriminate|].
  destruct (r_hdr r) as [k|] eqn:Hd.
  - rewrite (split_loop_fix_kind r t None k Hd).
    destruct (k =? KIND_SCRATCHPAD) eqn:K.
    + apply N.eqb_eq in K. subst k. intros E. apply split_loop_scratch in E.
      destruct E as ([A|A] & _ & C); [discriminate|]. destruct A. auto.
    + rewrite (split_loop_other_kind _ k None K). discriminate.
  - cbn [split_loop wf_pads]. rewrite Hd. intros E. destruct (IH E) as (A & B & C).
    destruct (parse_pad r); auto.
Qed.

(* ---------------------------------------------------------------- chunk_get *)

Lemma chunk_get_authentic_lemma (H : bytes -> N) rp a c : chunk_get H rp a = inl c -> H c = a.
Proof.
  unfold chunk_get. destruct (get_record a rp) as [r|e]; [|discriminate].
  destruct (r_hdr r) as [k|]; [|discriminate].
  destruct (k =? KIND_CHUNK); [|discriminate].
  destruct (parse_chunk r) as [c'|]; [|discriminate].
  destruct (H c' =? a) eqn:E; [|discriminate]. intros X. inversion X; subst. apply N.eqb_eq. exact E.
Qed.

(* an honest holder's reply is accepted *)

(* ... whatever key the record carries *)
Lemma chunk_get_honest (H : bytes -> N) k c : chunk_get H (ROk (chunk_record k c)) (H c) = inl c.
Proof.
  unfold chunk_get, chunk_record. cbn. rewrite N.eqb_refl. reflexivity.
Qed.

(* a returned chunk is one the network supplied in a record of kind Chunk (under any key) *)
Lemma chunk_get_from_reply (H : bytes -> N) rp a c :
  chunk_get H rp a = inl c -> exists k, rp = ROk (chunk_record k c).
Proof.
  unfold chunk_get. destruct rp as [r|e]; cbn [get_record].
  - destruct r as [k0 [k|] b]; cbn [r_hdr]; [|discriminate].
    destruct (k =? KIND_CHUNK) eqn:K; [|discriminate]. apply N.eqb_eq in K. subst k.
    unfold parse_chunk. cbn [r_body]. destruct b as [c'| |]; try discriminate.
    destruct (H c' =? a); [|discriminate]. intros X. inversion X. exists k0. reflexivity.
  - destruct e as [r0| |r0| | |m]; try discriminate.
    destruct (handle_split a m) as [r|] eqn:Hs; [|discriminate].
    unfold handle_split in Hs. destruct (1 <? N.of_nat (List.length m)); [|discriminate].
    destruct (split_loop None None m); [|discriminate]. inversion Hs; subst r. cbn [r_hdr].
    destruct (KIND_SCRATCHPAD =? KIND_CHUNK) eqn:K; [discriminate K|discriminate].
Qed.

(* ---------------------------------------------------------------- vault *)

Lemma get_vault_spec key rp pk p :
  get_vault key rp pk = inl p ->
  In p (all_pads rp) /\ authentic pk p = true /\
  forall q, In q (received rp) -> authentic pk q = true -> p_counter q <= p_counter p.
Proof.
  unfold get_vault, all_pads, received. destruct rp as [r|e]; cbn [get_record records_of].
  - destruct (parse_pad r) as [p'|] eqn:P; [|discriminate].
    destruct (authentic pk p') eqn:A; [|discriminate]. intros X. inversion X; subst p'.
    cbn [pads_of wf_pads]. rewrite P. split; [left; reflexivity|]. split; [exact A|].
    intros q. destruct (r_hdr r) as [k|]; [|intros []].
    destruct (k =? KIND_SCRATCHPAD); [|intros []]. intros [->|[]] _. lia.
  - destruct e as [r0| |r0| | |m]; try discriminate.
    destruct (handle_split key m) as [r|] eqn:Hs.
    + unfold handle_split in Hs. destruct (1 <? N.of_nat (List.length m)); [|discriminate].
      destruct (split_loop None None m) as [b|] eqn:L; [|discriminate]. inversion Hs; subst r.
      unfold parse_pad. cbn [r_body]. destruct (authentic pk b) eqn:A; [|discriminate].
      intros X. inversion X; subst b. apply split_loop_spec in L. destruct L as (I & V & M).
      split; [apply wf_pads_incl; exact I|]. split; [exact A|].
      intros q Q1 Q2. apply M; [exact Q1|]. apply authentic_iff in Q2. tauto.
    + intros E. apply vault_pick_spec in E. destruct E as (I & A & M). split; [exact I|].
      split; [exact A|]. intros q Q1 Q2. apply M; [apply wf_pads_incl; exact Q1|exact Q2].
Qed.

Lemma vault_signed_by_owner_lemma key rp pk p :
  get_vault key rp pk = inl p -> p_owner p = pk /\ is_valid p = true.
Proof. intros E. apply get_vault_spec in E. destruct E as (_ & A & _). apply authentic_iff. exact A. Qed.

Lemma vault_highest_lemma key rp pk p :
  get_vault key rp pk = inl p ->
  forall q, In q (received rp) -> authentic pk q = true -> p_counter q <= p_counter p.
Proof. intros E. apply get_vault_spec in E. tauto. Qed.

Lemma vault_fails_lemma key rp pk :
  (forall q, In q (all_pads rp) -> authentic pk q = false) -> exists e, get_vault key rp pk = inr e.
Proof.
  intros N. destruct (get_vault key rp pk) as [p|e] eqn:E; [|eauto].
  apply get_vault_spec in E. destruct E as (I & A & _). rewrite (N p I) in A. discriminate.
Qed.

(* what fetch_and_decrypt_vault hands to the application was encrypted to the requested key inside
   a pad that key owns and signed, and is the newest such version received *)
Lemma fetch_decrypt_lemma key rp sk m e :
  fetch_and_decrypt_vault key rp sk = VOk m e ->
  exists p, In p (all_pads rp) /\ authentic sk p = true /\ c_to (p_ct p) = Some sk /\
            c_plain (p_ct p) = m /\ p_encoding p = e /\
            forall q, In q (received rp) -> authentic sk q = true -> p_counter q <= p_counter p.
Proof.
  unfold fetch_and_decrypt_vault. destruct (get_vault key rp sk) as [p|er] eqn:G; [|discriminate].
  unfold decrypt_data. destruct (c_to (p_ct p)) as [k|] eqn:T; [|discriminate].
  destruct (k =? sk) eqn:K; [|discriminate]. apply N.eqb_eq in K. subst k.
  intros X. inversion X; subst. apply get_vault_spec in G. destruct G as (I & A & M).
  exists p. repeat split; auto.
Qed.

Lemma fetch_fails_lemma key rp sk :
  (forall q, In q (all_pads rp) -> authentic sk q = false) -> exists e, fetch_and_decrypt_vault key rp sk = VErr e.
Proof.
  intros N. unfold fetch_and_decrypt_vault. destruct (vault_fails_lemma key rp sk N) as [e ->]. eauto.
Qed.

(* a record carried inside an error (NotEnoughCopies, RecordDoesNotMatch) is never handed to the
   caller, whatever it contains: the read fails with that error *)
Lemma error_carried_record_ignored key r pk :
  get_vault key (RErr (GNotEnoughCopies r)) pk = inr (VNet (GNotEnoughCopies r)) /\
  get_vault key (RErr (GDoesNotMatch r)) pk = inr (VNet (GDoesNotMatch r)) /\
  fetch_and_decrypt_vault key (RErr (GNotEnoughCopies r)) pk = VErr (VNet (GNotEnoughCopies r)) /\
  fetch_and_decrypt_vault key (RErr (GDoesNotMatch r)) pk = VErr (VNet (GDoesNotMatch r)) /\
  forall H a, chunk_get H (RErr (GNotEnoughCopies r)) a = inr (CNet (GNotEnoughCopies r)) /\
              chunk_get H (RErr (GDoesNotMatch r)) a = inr (CNet (GDoesNotMatch r)).
Proof. repeat split; reflexivity. Qed.

(* honest flows *)

Lemma get_vault_honest key k pk p : authentic pk p = true -> get_vault key (ROk (pad_record k p)) pk = inl p.
Proof. intros A. unfold get_vault, pad_record, parse_pad. cbn. rewrite A. reflexivity. Qed.

(* a split of well-formed versions, at least one of them authentic, never fails *)
Lemma get_vault_split_complete key pk m q :
  Forall (fun r => r_hdr r = Some KIND_SCRATCHPAD /\ exists p, parse_pad r = Some p /\ authentic pk p = true) m ->
  In q (pads_of m) -> exists p, get_vault key (RErr (GSplit m)) pk = inl p.
Proof.
  intros F I. unfold get_vault. cbn [get_record].
  assert (AllAuth : forall x, In x (pads_of m) -> authentic pk x = true).
  { intros x Ix. apply pads_of_In in Ix. destruct Ix as (r & Ir & Pr).
    rewrite Forall_forall in F. destruct (F r Ir) as (_ & p & Pp & Ap). congruence. }
  destruct (handle_split key m) as [r|] eqn:Hs.
  - unfold handle_split in Hs. destruct (1 <? N.of_nat (List.length m)); [|discriminate].
    destruct (split_loop None None m) as [b|] eqn:L; [|discriminate]. inversion Hs; subst r.
    unfold parse_pad. cbn [r_body]. apply split_loop_spec in L. destruct L as (Ib & _ & _).
    rewrite (AllAuth b (wf_pads_incl _ _ Ib)). eauto.
  - apply (vault_pick_complete pk m q); auto.
    clear - F. induction m as [|r t IH]; cbn [map all_some]; [discriminate|].
    inversion F as [|? ? (_ & p & P & _) Ft]; subst. rewrite P.
    specialize (IH Ft). destruct (all_some (map parse_pad t)); [discriminate|congruence].
Qed.

(* ---------------------------------------------------------------- non-vacuity examples *)

Definition ct_ex (to uid : N) (m : bytes) : ctext := {| c_to := Some to; c_plain := m; c_uid := uid |}.
Definition signed_pad (owner signer counter : N) (ct : ctext) : pad :=
  {| p_owner := owner; p_encoding := 7; p_ct := ct; p_counter := counter;
     p_sig := Some {| s_by := signer; s_counter := counter; s_ct := ct |} |}.

Definition good5 := signed_pad 0 0 5 (ct_ex 0 1 [1;2;3]).
Definition good9 := signed_pad 0 0 9 (ct_ex 0 2 [4;5]).
Definition forged99 := signed_pad 0 1 99 (ct_ex 0 3 [6;6;6]).      (* owner 0 claimed, signed by key 1 *)
Definition foreign50 := signed_pad 1 1 50 (ct_ex 0 4 [6;6;6]).    (* key 1's own valid pad, encrypted to key 0 *)
Definition unsigned70 : pad :=
  {| p_owner := 0; p_encoding := 7; p_ct := ct_ex 0 5 [9]; p_counter := 70; p_sig := None |}.

(* the keys on the returned records (here 11, 22, 33, 44, none of them the requested 7) play no role *)
Example ex_vault_split_picks_highest_authentic :
  get_vault 7 (RErr (GSplit [pad_record 11 good5; pad_record 22 forged99; pad_record 33 good9; pad_record 44 unsigned70])) 0
  = inl good9.
Proof. vm_compute. reflexivity. Qed.

Example ex_vault_foreign_rejected : get_vault 7 (ROk (pad_record 7 foreign50)) 0 = inr VInvalidPad.
Proof. vm_compute. reflexivity. Qed.

Example ex_vault_forged_rejected :
  fetch_and_decrypt_vault 7 (ROk (pad_record 7 forged99)) 0 = VErr VInvalidPad.
Proof. vm_compute. reflexivity. Qed.

Example ex_vault_single_split_unsigned :
  get_vault 7 (RErr (GSplit [pad_record 7 unsigned70])) 0 = inr VMissing.
Proof. vm_compute. reflexivity. Qed.

Example ex_fetch_ok : fetch_and_decrypt_vault 7 (ROk (pad_record 9 good5)) 0 = VOk [1;2;3] 7.
Proof. vm_compute. reflexivity. Qed.

Example ex_chunk_get_ok : chunk_get (fun c => N.of_nat (List.length c)) (ROk (chunk_record 2 [7;7])) 2 = inl [7;7].
Proof. vm_compute. reflexivity. Qed.

Example ex_chunk_get_substituted :
  chunk_get (fun c => N.of_nat (List.length c)) (ROk (chunk_record 2 [7;7;7])) 2
  = inr (CNet (GDoesNotMatch (chunk_record 2 [7;7;7]))).
Proof. vm_compute. reflexivity. Qed.

(* the whole record replaced by a well-formed record of another chunk (keyed with that chunk's own
   address, 3): still rejected, because the comparison is with the requested address *)
Example ex_chunk_get_whole_record_substituted :
  chunk_get (fun c => N.of_nat (List.length c)) (ROk (chunk_record 3 [7;7;7])) 2
  = inr (CNet (GDoesNotMatch (chunk_record 3 [7;7;7]))).
Proof. vm_compute. reflexivity. Qed.

(* a chunk_get that compares the recomputed address with the key carried by the returned record
   instead of the requested address is unsound: the holders choose that key *)
Definition chunk_get_vs_record_key (H : bytes -> N) (rp : reply) (addr : N) : bytes + cerr :=
  match get_record addr rp with
  | inr e => inr (CNet e)
  | inl r =>
      match r_hdr r with
      | None => inr CHeader
      | Some k =>
          if k =? KIND_CHUNK then
            match parse_chunk r with
            | None => inr CDeser
            | Some c => if H c =? r_key r then inl c else inr (CNet (GDoesNotMatch r))
            end
          else inr CKind
      end
  end.

Lemma chunk_get_vs_record_key_refuted :
  exists (H : bytes -> N) rp a c, chunk_get_vs_record_key H rp a = inl c /\ H c <> a.
Proof.
  exists (fun c => N.of_nat (List.length c)), (ROk (chunk_record 3 [7;7;7])), 2, [7;7;7].
  split; [reflexivity|]. vm_compute. discriminate.
Qed.

(* ---------------------------------------------------------------- the code before the repairs (F20) *)

(* chunk_get as it was: the address is recomputed while deserialising but never compared *)
Definition chunk_get_legacy (addr : N) (rp : reply) : bytes + cerr :=
  match get_record addr rp with
  | inr e => inr (CNet e)
  | inl r =>
      match r_hdr r with
      | None => inr CHeader
      | Some k => if k =? KIND_CHUNK then match parse_chunk r with None => inr CDeser | Some c => inl c end
                  else inr CKind
      end
  end.

Lemma chunk_get_legacy_refuted :
  exists (H : bytes -> N) rp a c, chunk_get_legacy a rp = inl c /\ H c <> a.
Proof.
  exists (fun c => N.of_nat (List.length c)), (ROk (chunk_record 2 [7;7;7])), 2, [7;7;7].
  split; [reflexivity|]. vm_compute. discriminate.
Qed.

(* get_vault_from_network as it was: no is_valid / owner check on the Ok arm, highest counter
   among all deserialised pads on the SplitRecord arm *)
Definition vault_pick_legacy (m : list record) : pad + verr :=
  match all_some (map parse_pad m) with
  | None => inr VInvalidPad
  | Some pads =>
      let pads := sort_pads pads in
      match last (map Some pads) None with
      | None => inr VMissing
      | Some top =>
          match filter (fun s => p_counter s =? p_counter top) pads with
          | one :: _ => inl one
          | [] => inr VMissing
          end
      end
  end.

Definition get_vault_legacy (rp : reply) : pad + verr :=
  match get_record 7 rp with
  | inl r => match parse_pad r with None => inr VInvalidPad | Some p => inl p end
  | inr (GSplit m) => vault_pick_legacy m
  | inr e => inr (VNet e)
  end.

Lemma vault_legacy_refuted :
  (exists rp p, get_vault_legacy rp = inl p /\ is_valid p = false /\ decrypt_data 0 p = DOk [6;6;6]) /\
  (exists rp p, get_vault_legacy rp = inl p /\ p_owner p <> 0 /\ decrypt_data 0 p = DOk [6;6;6]) /\
  (exists m p, get_vault_legacy (RErr (GSplit m)) = inl p /\ is_valid p = false /\
               exists q, In q (pads_of m) /\ authentic 0 q = true).
Proof.
  split; [|split].
  - exists (ROk (pad_record 7 forged99)), forged99. vm_compute. auto.
  - exists (ROk (pad_record 7 foreign50)), foreign50. vm_compute. repeat split; auto. discriminate.
  - (* the first version's header says Chunk, so the network layer gives up and the client is handed
       the raw split: it takes the highest counter without validating anything *)
    exists [{| r_key := 7; r_hdr := Some KIND_CHUNK; r_body := BPad forged99 |}; pad_record 7 good5], forged99.
    vm_compute. split; [reflexivity|]. split; [reflexivity|]. exists good5. auto.
Qed.
