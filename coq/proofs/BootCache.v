(* C18 / C17 -- lemmas about model/BootCache.v *)
From Coq Require Import List NArith ZArith String Ascii Bool Lia Arith ZifyBool ZifyNat ZifyN Permutation.
From V Require Import lib.Strs gen.Consts model.Parsers proofs.Parsers model.BootCache.
Import ListNotations.
Open Scope N_scope.
Ltac Zify.zify_post_hook ::= Z.div_mod_to_equations.

(* ------------------------------------------------------------------ C17: loading never panics *)
Lemma no_panic_load_cache_lemma dec cfg now file : load_cache dec cfg now file <> Panic.
Proof. unfold load_cache. destruct file as [t|]; [destruct (dec t)|]; discriminate. Qed.

(* F22: before the repair, eight reliable, unexpired addresses of one peer, one of them with
   success + failure = 2^32, made the clean-up on load overflow (debug build) *)
Definition f22_addr (i : N) : arec :=
  {| a_addr := [Ip4 i; Udp 1; P2p "p"]; a_s := 4294967295; a_f := 1; a_seen := 1000 |}.
Definition f22_cache : cache := [("p"%string, map f22_addr [1; 2; 3; 4; 5; 6; 7; 8])].

Lemma load_cache_unfixed_refuted_lemma :
  exists dec cfg now file,
    load_cache_unfixed Debug dec cfg now file = Panic /\
    (* the same file loads once the sum is widened, keeping max_addrs addresses *)
    exists c, load_cache dec cfg now file = Ok c /\ bounded_b cfg c = true.
Proof.
  exists (fun _ => Some f22_cache), default_config, 2000, (Some EmptyString).
  split; [vm_compute; reflexivity|]. eexists. split; vm_compute; reflexivity.
Qed.

(* ================================================================== C18 *)
(* ------------------------------------------------------------------ equality tests *)
Lemma proto_eqb_refl p : proto_eqb p p = true.
Proof. destruct p; cbn; auto using N.eqb_refl, String.eqb_refl. Qed.

Lemma addr_eqb_refl a : addr_eqb a a = true.
Proof. induction a as [|p r IH]; [reflexivity|]. cbn. rewrite proto_eqb_refl. exact IH. Qed.

Lemma proto_eqb_eq p q : proto_eqb p q = true -> p = q.
Proof.
  destruct p, q; cbn; intros H; try discriminate; try reflexivity;
    try (apply N.eqb_eq in H; congruence); try (apply String.eqb_eq in H; congruence).
Qed.

Lemma addr_eqb_eq a b : addr_eqb a b = true -> a = b.
Proof.
  revert b. induction a as [|p r IH]; intros [|q s] H; try discriminate; [reflexivity|].
  cbn in H. apply andb_true_iff in H. destruct H as [H1 H2].
  apply proto_eqb_eq in H1. apply IH in H2. congruence.
Qed.

(* ------------------------------------------------------------------ stable sort, truncation *)
Lemma In_insert_by {A} (key : A -> N) x y l : In y (insert_by key x l) <-> y = x \/ In y l.
Proof.
  induction l as [|z t IH]; cbn.
  - intuition.
  - destruct (key z <=? key x); cbn; rewrite ?IH; intuition.
Qed.

Lemma length_insert_by {A} (key : A -> N) x l : List.length (insert_by key x l) = S (List.length l).
Proof. induction l as [|z t IH]; cbn; [reflexivity|]. destruct (key z <=? key x); cbn; congruence. Qed.

Lemma In_fold_insert {A} (key : A -> N) l : forall acc y,
  In y (fold_left (fun acc x => insert_by key x acc) l acc) <-> In y l \/ In y acc.
Proof.
  induction l as [|x t IH]; intros acc y; cbn; [intuition|].
  rewrite IH, In_insert_by. intuition.
Qed.

Lemma In_stable_sort {A} (key : A -> N) l y : In y (stable_sort_by_key key l) <-> In y l.
Proof. unfold stable_sort_by_key. rewrite In_fold_insert. cbn. intuition. Qed.

Lemma In_firstn' {A} n : forall (l : list A) x, In x (firstn n l) -> In x l.
Proof. induction n as [|n IH]; intros [|y t] x H; cbn in *; try tauto. destruct H; auto. Qed.

Lemma In_truncate cfg l r : In r (truncate_addrs cfg l) -> In r l.
Proof.
  unfold truncate_addrs. destruct (max_addrs cfg <? len l); [|auto].
  intros H. apply In_firstn' in H. apply In_stable_sort in H. exact H.
Qed.

Lemma len_truncate cfg l : len (truncate_addrs cfg l) <= max_addrs cfg.
Proof.
  unfold truncate_addrs. destruct (N.ltb_spec (max_addrs cfg) (len l)) as [L|L]; [|exact L].
  unfold len. rewrite firstn_length. lia.
Qed.

(* ------------------------------------------------------------------ removing the oldest peers *)
Lemma length_remove_last_where {A} (f : A -> bool) l :
  existsb f l = true -> S (List.length (remove_last_where f l)) = List.length l.
Proof.
  induction l as [|x t IH]; cbn; [discriminate|].
  destruct (existsb f t) eqn:E.
  - intros _. cbn. rewrite IH by reflexivity. reflexivity.
  - rewrite orb_false_r. intros ->. reflexivity.
Qed.

Lemma In_remove_last_where {A} (f : A -> bool) l y : In y (remove_last_where f l) -> In y l.
Proof.
  induction l as [|x t IH]; cbn; [auto|].
  destruct (existsb f t); cbn; [intuition|]. destruct (f x); cbn; intuition.
Qed.

(* an element that disappears satisfied the predicate *)
Lemma removed_satisfies {A} (f : A -> bool) l y :
  In y l -> ~ In y (remove_last_where f l) -> f y = true.
Proof.
  induction l as [|x t IH]; cbn; [tauto|].
  destruct (existsb f t) eqn:E; cbn.
  - intros [->|Hin] Hn; [tauto|]. apply IH; tauto.
  - destruct (f x) eqn:Fx; cbn.
    + intros [->|Hin] Hn; [exact Fx | tauto].
    + intros H Hn. tauto.
Qed.

Lemma max_age_ge now c pl : In pl c -> peer_age now (snd pl) <= max_age now c.
Proof.
  induction c as [|x t IH]; [intros []|]. cbn [max_age fold_right In]. fold (max_age now t).
  intros [->|Hin]; [lia|]. specialize (IH Hin). lia.
Qed.

Lemma max_age_attained now c : c <> [] ->
  existsb (fun pl => peer_age now (snd pl) =? max_age now c) c = true.
Proof.
  induction c as [|x t IH]; [congruence|]. intros _. cbn [max_age fold_right existsb].
  fold (max_age now t).
  destruct t as [|y t'].
  - cbn. rewrite N.max_0_r, N.eqb_refl. reflexivity.
  - destruct (N.leb_spec (max_age now (y :: t')) (peer_age now (snd x))) as [L|L].
    + rewrite N.max_l by lia. rewrite N.eqb_refl. reflexivity.
    + rewrite N.max_r by lia. rewrite IH by congruence. apply orb_true_r.
Qed.

Lemma length_remove_one_oldest now c : c <> [] ->
  S (List.length (remove_one_oldest now c)) = List.length c.
Proof. intros H. apply length_remove_last_where. apply max_age_attained. exact H. Qed.

Lemma length_remove_oldest_n now k : forall c, (k <= List.length c)%nat ->
  List.length (remove_oldest_n now k c) = (List.length c - k)%nat.
Proof.
  induction k as [|k IH]; intros c H; cbn; [lia|].
  assert (NE : c <> []) by (destruct c; cbn in *; [lia | congruence]).
  pose proof (length_remove_one_oldest now c NE) as L.
  rewrite IH by lia. lia.
Qed.

Lemma In_remove_oldest_n now k : forall c y, In y (remove_oldest_n now k c) -> In y c.
Proof.
  induction k as [|k IH]; intros c y H; cbn in H; [exact H|].
  apply IH in H. eapply In_remove_last_where. exact H.
Qed.

Lemma In_try_remove_oldest cfg now c y : In y (try_remove_oldest cfg now c) -> In y c.
Proof. unfold try_remove_oldest. destruct (_ <? _); [apply In_remove_oldest_n | auto]. Qed.

Lemma len_try_remove_oldest cfg now c : len (try_remove_oldest cfg now c) = N.min (len c) (max_peers cfg).
Proof.
  unfold try_remove_oldest. destruct (N.ltb_spec (max_peers cfg) (len c)) as [L|L].
  - unfold len in *. rewrite length_remove_oldest_n by lia. lia.
  - lia.
Qed.

Lemma proto_eq_dec (a b : proto) : {a = b} + {a <> b}.
Proof. decide equality; try apply N.eq_dec; apply string_dec. Qed.
Lemma arec_eq_dec (a b : arec) : {a = b} + {a <> b}.
Proof. decide equality; try apply N.eq_dec. apply (list_eq_dec proto_eq_dec). Qed.
Lemma entry_eq_dec (a b : peer * list arec) : {a = b} + {a <> b}.
Proof. decide equality; [apply (list_eq_dec arec_eq_dec) | apply string_dec]. Qed.

(* nothing that stays is older than anything that goes *)
Lemma remove_oldest_n_oldest now k : forall c x y,
  In x (remove_oldest_n now k c) -> In y c -> ~ In y (remove_oldest_n now k c) ->
  peer_age now (snd x) <= peer_age now (snd y).
Proof.
  induction k as [|k IH]; intros c x y Hx Hy Hn; cbn in *; [tauto|].
  destruct (in_dec entry_eq_dec y (remove_one_oldest now c))
    as [Hin|Hout].
  - eapply IH; eassumption.
  - pose proof (removed_satisfies _ _ _ Hy Hout) as E. cbn in E. apply N.eqb_eq in E. rewrite E.
    apply max_age_ge. eapply In_remove_last_where. eapply In_remove_oldest_n. exact Hx.
Qed.

(* ------------------------------------------------------------------ clean-up *)
Lemma In_clean_peers cfg now c p l :
  In (p, l) (clean_peers cfg now c) ->
  l <> [] /\ exists l0, In (p, l0) c /\ l = filter (keep cfg now) l0.
Proof.
  unfold clean_peers. intros H. apply filter_In in H. destruct H as [H NE].
  apply in_map_iff in H. destruct H as ([q l0] & E & Hin). cbn in E. injection E as <- <-.
  split.
  - cbn in NE. destruct (filter (keep cfg now) l0); [discriminate | congruence].
  - exists l0. auto.
Qed.

(* every entry after clean-up comes from an entry before, with a sub-list of kept addresses *)
Lemma In_perform_cleanup cfg now c p l :
  In (p, l) (perform_cleanup cfg now c) ->
  exists l0, In (p, l0) c /\ (forall r, In r l -> In r l0 /\ keep cfg now r = true) /\
             len l <= max_addrs cfg /\ (0 < max_addrs cfg -> l <> []).
Proof.
  unfold perform_cleanup. intros H. apply In_try_remove_oldest in H.
  apply in_map_iff in H. destruct H as ([q l1] & E & Hin). cbn in E. injection E as <- <-.
  apply In_clean_peers in Hin. destruct Hin as (NE & l0 & Hin & ->).
  exists l0. split; [exact Hin|]. split; [|split].
  - intros r Hr. apply In_truncate in Hr. apply filter_In in Hr. exact Hr.
  - apply len_truncate.
  - intros Hpos. unfold truncate_addrs.
    destruct (N.ltb_spec (max_addrs cfg) (len (filter (keep cfg now) l0))) as [L|L]; [|exact NE].
    intros E. apply (f_equal (@List.length arec)) in E. rewrite firstn_length in E.
    assert (List.length (stable_sort_by_key rate_key (filter (keep cfg now) l0)) =
            List.length (filter (keep cfg now) l0)) as SL.
    { unfold stable_sort_by_key.
      assert (G : forall (l : list arec) acc,
                 List.length (fold_left (fun acc x => insert_by rate_key x acc) l acc) =
                 (List.length l + List.length acc)%nat).
      { induction l as [|x t IH]; intros acc; cbn; [reflexivity|].
        rewrite IH, length_insert_by. lia. }
      rewrite G. cbn. lia. }
    rewrite SL in E. unfold len in L. cbn in E. lia.
Qed.

Definition bounded (cfg : config) (c : cache) : Prop :=
  len c <= max_peers cfg /\ forall p l, In (p, l) c -> len l <= max_addrs cfg.

Lemma bounded_after_cleanup_lemma cfg now c : bounded cfg (perform_cleanup cfg now c).
Proof.
  split.
  - unfold perform_cleanup. rewrite len_try_remove_oldest. lia.
  - intros p l H. apply In_perform_cleanup in H. destruct H as (l0 & _ & _ & L & _). exact L.
Qed.

Lemma bounded_b_iff cfg c : bounded_b cfg c = true <-> bounded cfg c.
Proof.
  unfold bounded_b, bounded. rewrite andb_true_iff, forallb_forall, N.leb_le. split.
  - intros [H1 H2]. split; [exact H1|]. intros p l Hin. specialize (H2 _ Hin). cbn in H2.
    apply N.leb_le in H2. exact H2.
  - intros [H1 H2]. split; [exact H1|]. intros [p l] Hin. cbn. apply N.leb_le. eauto.
Qed.

Lemma cleanup_postcondition_lemma cfg now c p l r :
  In (p, l) (perform_cleanup cfg now c) -> In r l ->
  a_f r <= a_s r /\ a_seen r <= now /\ now - a_seen r < expiry cfg.
Proof.
  intros H Hr. apply In_perform_cleanup in H. destruct H as (l0 & _ & K & _).
  destruct (K r Hr) as [_ Kr]. unfold keep, reliable, unexpired, st_duration_since in Kr.
  apply andb_true_iff in Kr. destruct Kr as [K1 K2].
  destruct (N.leb_spec (a_seen r) now) as [K3|K3]; [|discriminate K2].
  apply N.leb_le in K1. apply N.ltb_lt in K2. auto.
Qed.

(* the eviction order: a peer that stays is not older than a peer that is evicted *)
Lemma cleanup_evicts_oldest_lemma cfg now c x y :
  let pre := map (fun pl => (fst pl, truncate_addrs cfg (snd pl))) (clean_peers cfg now c) in
  In x (perform_cleanup cfg now c) -> In y pre -> ~ In y (perform_cleanup cfg now c) ->
  peer_age now (snd x) <= peer_age now (snd y).
Proof.
  intros pre. unfold perform_cleanup. fold pre. unfold try_remove_oldest.
  destruct (max_peers cfg <? len pre); [|tauto]. apply remove_oldest_n_oldest.
Qed.

(* ------------------------------------------------------------------ finite-map facts *)
Lemma lookup_In c p l : lookup c p = Some l -> In (p, l) c.
Proof.
  induction c as [|[q l0] t IH]; cbn; [discriminate|].
  destruct (String.eqb_spec q p) as [->|NE]; [intros H; injection H as <-; auto | auto].
Qed.

Lemma lookup_set_peer c p l q :
  lookup (set_peer c p l) q = if String.eqb p q then Some l else lookup c q.
Proof.
  induction c as [|[k l0] t IH]; cbn.
  - destruct (String.eqb p q); reflexivity.
  - destruct (String.eqb_spec k p) as [->|NE]; cbn.
    + destruct (String.eqb p q); reflexivity.
    + rewrite IH. destruct (String.eqb_spec k q) as [->|NE2].
      * destruct (String.eqb_spec p q) as [->|]; [congruence | reflexivity].
      * reflexivity.
Qed.

Lemma In_set_peer c p l q m : In (q, m) (set_peer c p l) -> (q = p /\ m = l) \/ In (q, m) c.
Proof.
  induction c as [|[k l0] t IH]; cbn.
  - intros [E|[]]. injection E as <- <-. auto.
  - destruct (String.eqb_spec k p) as [->|NE]; cbn.
    + intros [E|H]; [injection E as <- <-; auto | auto].
    + intros [E|H]; [auto|]. apply IH in H. tauto.
Qed.

Definition keys (c : cache) : list peer := map fst c.

Lemma keys_set_peer_in c p l : In p (keys c) -> keys (set_peer c p l) = keys c.
Proof.
  induction c as [|[k l0] t IH]; cbn; [tauto|].
  destruct (String.eqb_spec k p) as [->|NE]; cbn; [reflexivity|].
  intros [E|H]; [congruence|]. unfold keys in IH. rewrite IH by exact H. reflexivity.
Qed.

Lemma keys_set_peer_new c p l : ~ In p (keys c) -> keys (set_peer c p l) = keys c ++ [p].
Proof.
  induction c as [|[k l0] t IH]; cbn; [reflexivity|].
  destruct (String.eqb_spec k p) as [->|NE]; cbn; [tauto|].
  intros H. unfold keys in IH. rewrite IH by tauto. reflexivity.
Qed.

Lemma lookup_None_keys c p : lookup c p = None <-> ~ In p (keys c).
Proof.
  induction c as [|[k l0] t IH]; cbn; [tauto|].
  destruct (String.eqb_spec k p) as [->|NE].
  - split; [discriminate | tauto].
  - rewrite IH. unfold keys. tauto.
Qed.

Lemma NoDup_set_peer c p l : NoDup (keys c) -> NoDup (keys (set_peer c p l)).
Proof.
  intros H. destruct (in_dec string_dec p (keys c)) as [Hin|Hout].
  - rewrite keys_set_peer_in by exact Hin. exact H.
  - rewrite keys_set_peer_new by exact Hout.
    apply NoDup_rev in H. rewrite <- (rev_involutive (keys c ++ [p])). apply NoDup_rev.
    rewrite rev_app_distr. cbn. constructor; [rewrite <- in_rev; exact Hout | exact H].
Qed.

(* ------------------------------------------------------------------ address lists *)
Lemma has_upd_first f a l x : (forall r, a_addr (f r) = a_addr r) -> has (upd_first f a l) x = has l x.
Proof.
  intros Hf. induction l as [|r t IH]; [reflexivity|]. cbn [upd_first].
  destruct (addr_eqb (a_addr r) a); cbn [has existsb].
  - rewrite Hf. reflexivity.
  - unfold has in IH. rewrite IH. reflexivity.
Qed.

Lemma In_upd_first f a l y : In y (upd_first f a l) -> In y l \/ exists r, In r l /\ y = f r.
Proof.
  induction l as [|r t IH]; cbn; [tauto|].
  destruct (addr_eqb (a_addr r) a); cbn.
  - intros [<-|H]; [right; eauto | auto].
  - intros [<-|H]; [auto|]. apply IH in H. destruct H as [H|(r0 & H1 & H2)]; [auto | right; eauto].
Qed.

Lemma length_upd_first f a l : List.length (upd_first f a l) = List.length l.
Proof. induction l as [|r t IH]; cbn; [reflexivity|]. destruct (addr_eqb _ a); cbn; congruence. Qed.

Lemma In_remove_first a l y : In y (remove_first a l) -> In y l.
Proof.
  induction l as [|r t IH]; cbn; [tauto|]. destruct (addr_eqb (a_addr r) a); cbn; intuition.
Qed.

Lemma length_remove_first a l : (List.length (remove_first a l) <= List.length l)%nat.
Proof. induction l as [|r t IH]; cbn; [lia|]. destruct (addr_eqb _ a); cbn; lia. Qed.

Lemma arec_sync_addr r x : a_addr (arec_sync r x) = a_addr r.
Proof. unfold arec_sync. destruct (_ =? _); reflexivity. Qed.

Lemma has_app l1 l2 x : has (l1 ++ l2) x = has l1 x || has l2 x.
Proof. unfold has. apply existsb_app. Qed.

Lemma has_insert_addr_mono l y x : has l x = true -> has (insert_addr l y) x = true.
Proof.
  intros H. unfold insert_addr. destruct (has l (a_addr y)).
  - rewrite has_upd_first by (intros; apply arec_sync_addr). exact H.
  - rewrite has_app, H. reflexivity.
Qed.

Lemma has_insert_addr_new l y : has (insert_addr l y) (a_addr y) = true.
Proof.
  unfold insert_addr. destruct (has l (a_addr y)) eqn:E.
  - rewrite has_upd_first by (intros; apply arec_sync_addr). exact E.
  - rewrite has_app. cbn. rewrite addr_eqb_refl. apply orb_true_r.
Qed.

Lemma has_In l x : has l x = true <-> exists r, In r l /\ a_addr r = x.
Proof.
  unfold has. rewrite existsb_exists. split.
  - intros (r & Hin & E). apply addr_eqb_eq in E. eauto.
  - intros (r & Hin & <-). exists r. split; [exact Hin | apply addr_eqb_refl].
Qed.

Lemma has_addrs_sync_mono other : forall self x, has self x = true -> has (addrs_sync self other) x = true.
Proof.
  unfold addrs_sync. induction other as [|y t IH]; intros self x H; cbn; [exact H|].
  apply IH. apply has_insert_addr_mono. exact H.
Qed.

Lemma has_addrs_sync_other other : forall self x, has other x = true -> has (addrs_sync self other) x = true.
Proof.
  unfold addrs_sync. induction other as [|y t IH]; intros self x H; cbn in *; [discriminate|].
  apply orb_true_iff in H. destruct H as [H|H].
  - apply addr_eqb_eq in H. subst x. apply (has_addrs_sync_mono t). apply has_insert_addr_new.
  - apply IH. exact H.
Qed.

(* the records of a merged list carry addresses of one of the two sides *)
Lemma In_insert_addr l y r : In r (insert_addr l y) -> (exists r0, In r0 l /\ a_addr r = a_addr r0) \/ r = y.
Proof.
  unfold insert_addr. destruct (has l (a_addr y)).
  - intros H. apply In_upd_first in H. destruct H as [H|(r0 & H1 & ->)]; left.
    + eauto.
    + exists r0. split; [exact H1 | apply arec_sync_addr].
  - intros H. apply in_app_or in H. destruct H as [H | [E | F]]; [left; eauto | right; symmetry; exact E | destruct F].
Qed.

Lemma In_addrs_sync other : forall self r, In r (addrs_sync self other) ->
  exists r0, (In r0 self \/ In r0 other) /\ a_addr r = a_addr r0.
Proof.
  unfold addrs_sync. induction other as [|y t IH]; intros self r H; cbn in H; [eauto|].
  apply IH in H. destruct H as (r0 & [H|H] & E).
  - apply In_insert_addr in H. destruct H as [(r1 & H1 & E1) | ->].
    + exists r1. split; [auto | congruence].
    + exists y. split; [right; left; reflexivity | exact E].
  - exists r0. split; [right; right; exact H | exact E].
Qed.

(* ------------------------------------------------------------------ merge keeps both sides *)
Definition has_addr (c : cache) (p : peer) (x : addr) : Prop :=
  exists l, lookup c p = Some l /\ has l x = true.

Lemma sync_peer_mono acc po q x : has_addr acc q x -> has_addr (sync_peer acc po) q x.
Proof.
  destruct po as [p oa]. intros (l & L & H). unfold sync_peer, has_addr.
  destruct (lookup acc p) as [sa|] eqn:E; rewrite lookup_set_peer.
  - destruct (String.eqb_spec p q) as [->|NE]; [|eauto].
    rewrite L in E. injection E as <-. eexists. split; [reflexivity|]. apply has_addrs_sync_mono. exact H.
  - destruct (String.eqb_spec p q) as [->|NE]; [congruence | eauto].
Qed.

Lemma sync_peer_adds acc p oa x : has oa x = true -> has_addr (sync_peer acc (p, oa)) p x.
Proof.
  intros H. unfold sync_peer, has_addr.
  destruct (lookup acc p) as [sa|] eqn:E; rewrite lookup_set_peer, String.eqb_refl;
    eexists; (split; [reflexivity|]); apply has_addrs_sync_other; exact H.
Qed.

Lemma cache_sync_mono other : forall self q x, has_addr self q x -> has_addr (cache_sync self other) q x.
Proof.
  unfold cache_sync. induction other as [|po t IH]; intros self q x H; cbn; [exact H|].
  apply IH. apply sync_peer_mono. exact H.
Qed.

Lemma cache_sync_other other : forall self p l x,
  In (p, l) other -> has l x = true -> has_addr (cache_sync self other) p x.
Proof.
  unfold cache_sync. induction other as [|po t IH]; intros self p l x Hin H; cbn; [destruct Hin|].
  destruct Hin as [->|Hin].
  - apply (cache_sync_mono t). apply sync_peer_adds. exact H.
  - eapply IH; eassumption.
Qed.

Lemma sync_loses_nothing_lemma a b p x :
  has_addr a p x \/ has_addr b p x -> has_addr (cache_sync a b) p x.
Proof.
  intros [H|(l & L & H)].
  - apply cache_sync_mono. exact H.
  - eapply cache_sync_other; [apply lookup_In; exact L | exact H].
Qed.

(* and the merge invents nothing: every address afterwards was known to one side *)
Lemma In_sync_peer acc po q l r : In (q, l) (sync_peer acc po) -> In r l ->
  exists l0 r0, (In (q, l0) acc \/ (q, l0) = po) /\ In r0 l0 /\ a_addr r = a_addr r0.
Proof.
  destruct po as [p oa]. unfold sync_peer.
  destruct (lookup acc p) as [sa|] eqn:E; intros H Hr; apply In_set_peer in H;
    destruct H as [[-> ->]|H]; try (exists l, r; auto; fail).
  - apply In_addrs_sync in Hr. destruct Hr as (r0 & [H0|H0] & E0).
    + exists sa, r0. split; [left; apply lookup_In; exact E | auto].
    + exists oa, r0. auto.
  - apply In_addrs_sync in Hr. destruct Hr as (r0 & [H0|H0] & E0); exists oa, r0; auto.
Qed.

(* ------------------------------------------------------------------ well-formed addresses *)
Definition all_wf (c : cache) : Prop :=
  forall p l r, In (p, l) c -> In r l -> wf_addr (a_addr r) = true.

Lemma all_wf_b_iff c : all_wf_b c = true <-> all_wf c.
Proof.
  unfold all_wf_b, all_wf. rewrite forallb_forall. split.
  - intros H p l r Hin Hr. specialize (H _ Hin). cbn in H. rewrite forallb_forall in H. auto.
  - intros H [p l] Hin. cbn. apply forallb_forall. intros r Hr. eauto.
Qed.

Lemma all_wf_set_peer c p l : all_wf c -> (forall r, In r l -> wf_addr (a_addr r) = true) ->
  all_wf (set_peer c p l).
Proof.
  intros Hc Hl q m r Hin Hr. apply In_set_peer in Hin. destruct Hin as [[-> ->]|Hin]; eauto.
Qed.

Lemma all_wf_sync_peer acc po : all_wf acc -> (forall r, In r (snd po) -> wf_addr (a_addr r) = true) ->
  all_wf (sync_peer acc po).
Proof.
  intros Ha Ho q l r Hin Hr. destruct (In_sync_peer _ _ _ _ _ Hin Hr) as (l0 & r0 & [H|H] & H0 & E).
  - rewrite E. eauto.
  - rewrite E. apply Ho. rewrite <- H. exact H0.
Qed.

Lemma all_wf_cache_sync other : forall self, all_wf self -> all_wf other -> all_wf (cache_sync self other).
Proof.
  unfold cache_sync. induction other as [|po t IH]; intros self Hs Ho; cbn; [exact Hs|].
  apply IH.
  - apply all_wf_sync_peer; [exact Hs|]. intros r Hr. destruct po as [p oa]. eapply Ho; [left; reflexivity | exact Hr].
  - intros p l r Hin Hr. eapply Ho; [right; exact Hin | exact Hr].
Qed.

Lemma all_wf_cleanup cfg now c : all_wf c -> all_wf (perform_cleanup cfg now c).
Proof.
  intros H p l r Hin Hr. apply In_perform_cleanup in Hin. destruct Hin as (l0 & Hin & K & _).
  destruct (K r Hr) as [Hr0 _]. eauto.
Qed.

Lemma all_wf_add_addr cfg now c raw : all_wf c -> all_wf (add_addr cfg now c raw).
Proof.
  intros H. unfold add_addr, add_addr_core. destruct (craft raw false) as [a|] eqn:Ec; [|exact H].
  apply craft_wf_lemma in Ec. destruct (peer_of a) as [p|]; [|exact H].
  destruct (lookup c p) as [l|] eqn:El; cbn [fst snd].
  - pose proof (lookup_In _ _ _ El) as Hin. destruct (has l a); cbn [fst snd].
    + apply all_wf_set_peer; [exact H|]. intros r Hr. apply In_upd_first in Hr.
      destruct Hr as [Hr|(r0 & Hr & ->)]; [eauto | cbn; eauto].
    + apply all_wf_cleanup. apply all_wf_set_peer; [exact H|]. intros r Hr.
      apply In_insert_addr in Hr. destruct Hr as [(r0 & H0 & E) | ->]; [rewrite E; eauto | exact Ec].
  - apply all_wf_cleanup. apply all_wf_set_peer; [exact H|]. intros r [E | F]; [subst r; exact Ec | destruct F].
Qed.

Lemma update_status_addr ok now r : a_addr (update_status ok now r) = a_addr r.
Proof. unfold update_status. destruct ok; [destruct (_ <=? _) | destruct (_ <=? _)]; reflexivity. Qed.

Lemma all_wf_update cfg c a ok : all_wf c -> all_wf (update_addr_status cfg c a ok).
Proof.
  intros H. unfold update_addr_status. destruct (peer_of a) as [p|]; [|exact H].
  destruct (lookup c p) as [l|] eqn:El; [|exact H]. pose proof (lookup_In _ _ _ El) as Hin.
  apply all_wf_set_peer; [exact H|]. intros r Hr. apply In_upd_first in Hr.
  destruct Hr as [Hr|(r0 & Hr & ->)]; [eauto | rewrite update_status_addr; eauto].
Qed.

Lemma all_wf_remove c a : all_wf c -> all_wf (remove_addr c a).
Proof.
  intros H. unfold remove_addr. destruct (peer_of a) as [p|]; [|exact H].
  destruct (lookup c p) as [l|] eqn:El; [|exact H]. pose proof (lookup_In _ _ _ El) as Hin.
  apply all_wf_set_peer; [exact H|]. intros r Hr. apply In_remove_first in Hr. eauto.
Qed.

Definition syncs_wf (ops : list (N * op)) : Prop :=
  forall t other, In (t, OpSync other) ops -> all_wf other.

Lemma wellformed_lemma cfg ops : forall c, all_wf c -> syncs_wf ops -> all_wf (run cfg ops c).
Proof.
  unfold run. induction ops as [|[t o] rest IH]; intros c Hc Hs; cbn; [exact Hc|].
  apply IH.
  - destruct o; cbn.
    + apply all_wf_add_addr. exact Hc.
    + apply all_wf_update. exact Hc.
    + apply all_wf_remove. exact Hc.
    + apply all_wf_cache_sync; [exact Hc|]. eapply Hs. left. reflexivity.
    + apply all_wf_cleanup. exact Hc.
  - intros t' other Hin. eapply Hs. right. exact Hin.
Qed.

Lemma syncs_wf_b ops :
  forallb (fun t => match snd t with OpSync o => all_wf_b o | _ => true end) ops = true -> syncs_wf ops.
Proof.
  intros H t other Hin. rewrite forallb_forall in H. specialize (H _ Hin). cbn in H.
  apply all_wf_b_iff. exact H.
Qed.

Lemma all_wf_nil : all_wf [].
Proof. intros p l r []. Qed.

(* ------------------------------------------------------------------ where the bound holds *)
Lemma len_set_peer_in c p l : In p (keys c) -> len (set_peer c p l) = len c.
Proof.
  intros H. apply keys_set_peer_in with (l := l) in H. unfold len.
  apply (f_equal (@List.length peer)) in H. unfold keys in H. rewrite !map_length in H. lia.
Qed.

Lemma lookup_Some_keys c p l : lookup c p = Some l -> In p (keys c).
Proof. intros H. apply lookup_In in H. unfold keys. apply in_map_iff. exists (p, l). auto. Qed.

Lemma bounded_set_peer_in cfg c p l0 l :
  bounded cfg c -> lookup c p = Some l0 -> len l <= max_addrs cfg -> bounded cfg (set_peer c p l).
Proof.
  intros [B1 B2] L Hl. split.
  - rewrite len_set_peer_in by (eapply lookup_Some_keys; exact L). exact B1.
  - intros q m Hin. apply In_set_peer in Hin. destruct Hin as [[-> ->]|Hin]; eauto.
Qed.

Lemma bounded_add_addr cfg now c raw : bounded cfg c -> bounded cfg (add_addr cfg now c raw).
Proof.
  intros B. unfold add_addr, add_addr_core. destruct (craft raw false) as [a|]; [|exact B].
  destruct (peer_of a) as [p|]; [|exact B].
  destruct (lookup c p) as [l|] eqn:El; cbn [fst snd].
  - destruct (has l a); cbn [fst snd].
    + eapply bounded_set_peer_in; [exact B | exact El|].
      unfold len. rewrite length_upd_first. destruct B as [_ B2]. apply (B2 p). apply lookup_In. exact El.
    + apply bounded_after_cleanup_lemma.
  - apply bounded_after_cleanup_lemma.
Qed.

Lemma bounded_update cfg now c a ok : bounded cfg c -> bounded cfg (update_addr_status now c a ok).
Proof.
  intros B. unfold update_addr_status. destruct (peer_of a) as [p|]; [|exact B].
  destruct (lookup c p) as [l|] eqn:El; [|exact B].
  eapply bounded_set_peer_in; [exact B | exact El|].
  unfold len. rewrite length_upd_first. destruct B as [_ B2]. apply (B2 p). apply lookup_In. exact El.
Qed.

Lemma bounded_remove cfg c a : bounded cfg c -> bounded cfg (remove_addr c a).
Proof.
  intros B. unfold remove_addr. destruct (peer_of a) as [p|]; [|exact B].
  destruct (lookup c p) as [l|] eqn:El; [|exact B].
  eapply bounded_set_peer_in; [exact B | exact El|].
  pose proof (length_remove_first a l) as L. destruct B as [_ B2].
  specialize (B2 _ _ (lookup_In _ _ _ El)). unfold len in *. lia.
Qed.

(* from a bounded cache, only a merge can lead outside the bound (until the next clean-up) *)
Lemma bounded_without_sync_lemma cfg ops : forall c,
  forallb (fun t => negb (is_sync (snd t))) ops = true -> bounded cfg c -> bounded cfg (run cfg ops c).
Proof.
  unfold run. induction ops as [|[t o] rest IH]; intros c Hs B; cbn; [exact B|].
  cbn in Hs. apply andb_true_iff in Hs. destruct Hs as [Ho Hs]. apply IH; [exact Hs|].
  destruct o; cbn in *; try discriminate.
  - apply bounded_add_addr. exact B.
  - apply bounded_update. exact B.
  - apply bounded_remove. exact B.
  - apply bounded_after_cleanup_lemma.
Qed.

Lemma bounded_nil cfg : bounded cfg [].
Proof. split; [unfold len; cbn; lia | intros p l []]. Qed.

Definition tiny_cfg : config := {| max_peers := 1; max_addrs := 1; expiry := 1000 |}.
Definition rec_at (i : N) (p : string) : arec :=
  {| a_addr := [Ip4 i; Udp 1; P2p p]; a_s := 1; a_f := 0; a_seen := 10 |}.

Lemma sync_breaks_bound_refuted_lemma :
  exists cfg a b, bounded cfg a /\ bounded cfg b /\ ~ bounded cfg (cache_sync a b).
Proof.
  exists tiny_cfg, [("p"%string, [rec_at 1 "p"])], [("q"%string, [rec_at 2 "q"])].
  rewrite <- !bounded_b_iff. repeat split; try (vm_compute; reflexivity).
  vm_compute. discriminate.
Qed.

Lemma bounded_try_remove cfg now c : (forall p l, In (p, l) c -> len l <= max_addrs cfg) ->
  bounded cfg (try_remove_oldest cfg now c).
Proof.
  intros H. split; [rewrite len_try_remove_oldest; lia|].
  intros p l Hin. apply In_try_remove_oldest in Hin. eauto.
Qed.

(* ------------------------------------------------------------------ clean-up is the identity on clean caches *)
Lemma filter_all {A} (f : A -> bool) l : (forall x, In x l -> f x = true) -> filter f l = l.
Proof.
  induction l as [|x t IH]; intros H; cbn; [reflexivity|].
  rewrite (H x (or_introl eq_refl)). rewrite IH; [reflexivity|]. intros y Hy. apply H. right. exact Hy.
Qed.

Definition clean (cfg : config) (now : N) (c : cache) : Prop :=
  len c <= max_peers cfg /\
  forall p l, In (p, l) c -> l <> [] /\ len l <= max_addrs cfg /\ forall r, In r l -> keep cfg now r = true.

Lemma cleanup_fixpoint_lemma cfg now c : clean cfg now c -> perform_cleanup cfg now c = c.
Proof.
  intros [H1 H2]. unfold perform_cleanup.
  assert (E : map (fun pl => (fst pl, truncate_addrs cfg (snd pl))) (clean_peers cfg now c) = c).
  { unfold clean_peers. clear H1. induction c as [|[p l] t IH]; [reflexivity|].
    destruct (H2 p l (or_introl eq_refl)) as (NE & L & K).
    cbn [map fst snd]. rewrite (filter_all _ _ K). cbn [filter snd].
    destruct l as [|r0 l']; [congruence|]. cbn [negb map fst snd].
    rewrite IH by (intros q m Hin; apply (H2 q m); right; exact Hin).
    f_equal. unfold truncate_addrs. destruct (N.ltb_spec (max_addrs cfg) (len (r0 :: l'))); [lia | reflexivity]. }
  rewrite E. unfold try_remove_oldest. destruct (N.ltb_spec (max_peers cfg) (len c)); [lia | reflexivity].
Qed.

(* ------------------------------------------------------------------ persistence *)
Lemma save_load_lemma (enc : cache -> string) dec cfg now c :
  dec (enc c) = Some c -> load_cache dec cfg now (Some (enc c)) = Ok (perform_cleanup cfg now c).
Proof. intros H. unfold load_cache. rewrite H. reflexivity. Qed.

Lemma save_load_clean_lemma (enc : cache -> string) dec cfg now c :
  dec (enc c) = Some c -> clean cfg now c -> load_cache dec cfg now (Some (enc c)) = Ok c.
Proof. intros H K. rewrite save_load_lemma by exact H. rewrite cleanup_fixpoint_lemma by exact K. reflexivity. Qed.

Lemma load_bounded_lemma dec cfg now file c : load_cache dec cfg now file = Ok c -> bounded cfg c.
Proof.
  unfold load_cache. destruct file as [t|]; [|discriminate]. destruct (dec t); [|discriminate].
  intros H. injection H as <-. apply bounded_after_cleanup_lemma.
Qed.

Lemma corrupt_ignored_lemma (enc : cache -> string) dec cfg now wc mem t :
  dec t = None ->
  load_cache dec cfg now (Some t) = Err 2 /\
  sync_and_flush enc dec cfg now wc mem (Some t) =
    ([], Some (enc (if wc then try_remove_oldest cfg now (perform_cleanup cfg now mem) else mem))).
Proof. intros H. unfold sync_and_flush, load_cache. rewrite H. split; reflexivity. Qed.

Lemma flush_with_cleanup_bounded_lemma (enc : cache -> string) dec cfg now mem file :
  exists out, sync_and_flush enc dec cfg now true mem file = ([], Some (enc out)) /\ bounded cfg out.
Proof.
  unfold sync_and_flush. eexists. split; [reflexivity|].
  apply bounded_try_remove. intros p l Hin. apply In_perform_cleanup in Hin.
  destruct Hin as (l0 & _ & _ & L & _). exact L.
Qed.

(* the flush merges before it writes: nothing known to memory or to the file is missing from the
   merged cache (before its clean-up) *)
Lemma flush_merges_lemma (enc : cache -> string) dec cfg now mem file d p x :
  load_cache dec cfg now file = Ok d -> has_addr mem p x \/ has_addr d p x ->
  sync_and_flush enc dec cfg now false mem file = ([], Some (enc (cache_sync mem d))) /\
  has_addr (cache_sync mem d) p x.
Proof.
  intros L H. unfold sync_and_flush. rewrite L. split; [reflexivity|]. apply sync_loses_nothing_lemma. exact H.
Qed.

(* ------------------------------------------------------------------ atomic replacement *)
Lemma temp_of_set_temp ts w s v : temp_of (set_temp ts w s) v = if Nat.eqb w v then s else temp_of ts v.
Proof.
  induction ts as [|[u s0] t IH]; cbn.
  - destruct (Nat.eqb w v); reflexivity.
  - destruct (Nat.eqb_spec u w) as [->|NE]; cbn.
    + destruct (Nat.eqb w v); reflexivity.
    + rewrite IH. destruct (Nat.eqb_spec u v) as [->|NE2].
      * destruct (Nat.eqb_spec w v) as [->|]; [congruence | reflexivity].
      * reflexivity.
Qed.

Lemma temp_is_pending steps : forall st w,
  temp_of (temps (run_fs st steps)) w = pending_acc w (temp_of (temps st) w) steps.
Proof.
  unfold run_fs. induction steps as [|s t IH]; intros st w; cbn; [reflexivity|].
  rewrite IH. destruct s as [v ch|v]; cbn; rewrite temp_of_set_temp;
    destruct (Nat.eqb_spec v w) as [->|NE]; reflexivity.
Qed.

Lemma run_fs_snoc st steps x : run_fs st (steps ++ [x]) = fs_do (run_fs st steps) x.
Proof. unfold run_fs. rewrite fold_left_app. reflexivity. Qed.

(* the target only ever holds its initial content or what some writer had completely streamed when it
   committed *)
Lemma target_is_committed st steps :
  target (run_fs st steps) = target st \/
  exists pre w post, steps = pre ++ Commit w :: post /\
                     target (run_fs st steps) = Some (pending_acc w (temp_of (temps st) w) pre).
Proof.
  induction steps as [|x s IH] using rev_ind; [left; reflexivity|].
  rewrite run_fs_snoc. destruct x as [v ch|v]; cbn.
  - destruct IH as [IH|(pre & w & post & E & T)]; [left; exact IH|].
    right. exists pre, w, (post ++ [WriteChunk v ch]). split; [|exact T].
    rewrite E, <- app_assoc. reflexivity.
  - right. exists s, v, []. split; [reflexivity|]. rewrite temp_is_pending. reflexivity.
Qed.

Definition fresh_fs (init : option string) : fs := {| target := init; temps := [] |}.

Lemma atomic_replace_lemma (valid : string -> Prop) init steps :
  (forall t, init = Some t -> valid t) ->
  (* every writer commits only after streaming one complete valid text *)
  (forall pre w post, steps = pre ++ Commit w :: post -> valid (pending w pre)) ->
  forall seen rest, steps = seen ++ rest ->
    match target (run_fs (fresh_fs init) seen) with Some t => valid t | None => init = None end.
Proof.
  intros Hinit Hw seen rest E.
  destruct (target_is_committed (fresh_fs init) seen) as [T|(pre & w & post & E2 & T)]; rewrite T.
  - cbn. destruct init; auto.
  - cbn. apply (Hw pre w (post ++ rest)). rewrite E, E2, <- app_assoc. reflexivity.
Qed.

(* without the temporary file + rename, two writers streaming valid texts leave a torn target *)
Lemma inplace_torn_refuted_lemma :
  exists steps,
    (forall pre w post, steps = pre ++ Commit w :: post -> pending w pre = "{a}"%string \/ pending w pre = "{b}"%string) /\
    target (fold_left fs_do_inplace steps (fresh_fs None)) = Some "{{ab}}"%string.
Proof.
  exists [WriteChunk 1 "{"; WriteChunk 2 "{"; WriteChunk 1 "a"; WriteChunk 2 "b"; WriteChunk 1 "}"; WriteChunk 2 "}";
          Commit 1; Commit 2].
  split; [|reflexivity].
  intros pre w post E.
  do 6 (destruct pre as [|? pre]; [discriminate E | injection E as <- E]).
  destruct pre as [|? pre]; [injection E as <- _; left; reflexivity | injection E as <- E].
  destruct pre as [|? pre]; [injection E as <- _; right; reflexivity | injection E as <- E].
  destruct pre; discriminate E.
Qed.

(* ------------------------------------------------------------------ the association list stays a map *)
Lemma NoDup_keys_filter (f : peer * list arec -> bool) c : NoDup (keys c) -> NoDup (keys (filter f c)).
Proof.
  induction c as [|x t IH]; cbn; [auto|]. intros H. inversion H as [|? ? Hn Ht]; subst.
  destruct (f x); cbn; [|auto]. constructor; [|auto].
  intros Hin. apply Hn. unfold keys in *. apply in_map_iff in Hin. destruct Hin as (y & E & Hy).
  apply filter_In in Hy. apply in_map_iff. exists y. tauto.
Qed.

Lemma NoDup_keys_rlw (f : peer * list arec -> bool) c : NoDup (keys c) -> NoDup (keys (remove_last_where f c)).
Proof.
  induction c as [|x t IH]; cbn; [auto|]. intros H. inversion H as [|? ? Hn Ht]; subst.
  destruct (existsb f t); cbn.
  - constructor; [|auto]. intros Hin. apply Hn. unfold keys in *. apply in_map_iff in Hin.
    destruct Hin as (y & E & Hy). apply In_remove_last_where in Hy. apply in_map_iff. exists y. tauto.
  - destruct (f x); cbn; [exact Ht | exact H].
Qed.

Lemma NoDup_keys_remove_oldest_n now k : forall c, NoDup (keys c) -> NoDup (keys (remove_oldest_n now k c)).
Proof. induction k as [|k IH]; intros c H; cbn; [exact H|]. apply IH. apply NoDup_keys_rlw. exact H. Qed.

Lemma keys_map_snd (g : peer * list arec -> list arec) c : keys (map (fun pl => (fst pl, g pl)) c) = keys c.
Proof. unfold keys. rewrite map_map. reflexivity. Qed.

Lemma NoDup_keys_cleanup cfg now c : NoDup (keys c) -> NoDup (keys (perform_cleanup cfg now c)).
Proof.
  intros H. unfold perform_cleanup, try_remove_oldest.
  assert (G : NoDup (keys (map (fun pl => (fst pl, truncate_addrs cfg (snd pl))) (clean_peers cfg now c)))).
  { rewrite (keys_map_snd (fun pl => truncate_addrs cfg (snd pl))). unfold clean_peers.
    apply NoDup_keys_filter. rewrite (keys_map_snd (fun pl => filter (keep cfg now) (snd pl))). exact H. }
  destruct (_ <? _); [apply NoDup_keys_remove_oldest_n|]; exact G.
Qed.

Lemma NoDup_keys_cache_sync other : forall self, NoDup (keys self) -> NoDup (keys (cache_sync self other)).
Proof.
  unfold cache_sync. induction other as [|[p oa] t IH]; intros self H; cbn; [exact H|].
  apply IH. destruct (lookup self p); apply NoDup_set_peer; exact H.
Qed.

Lemma keys_unique_lemma cfg ops : forall c, NoDup (keys c) -> NoDup (keys (run cfg ops c)).
Proof.
  unfold run. induction ops as [|[t o] rest IH]; intros c H; cbn; [exact H|]. apply IH.
  destruct o; cbn.
  - unfold add_addr, add_addr_core. destruct (craft raw false) as [a|]; [|exact H]. destruct (peer_of a) as [p|]; [|exact H].
    destruct (lookup c p) as [l|]; [destruct (has l a)|]; cbn [fst snd];
      try apply NoDup_keys_cleanup; apply NoDup_set_peer; exact H.
  - unfold update_addr_status. destruct (peer_of a) as [p|]; [|exact H].
    destruct (lookup c p); [apply NoDup_set_peer|]; exact H.
  - unfold remove_addr. destruct (peer_of a) as [p|]; [|exact H].
    destruct (lookup c p); [apply NoDup_set_peer|]; exact H.
  - apply NoDup_keys_cache_sync. exact H.
  - apply NoDup_keys_cleanup. exact H.
Qed.

(* ------------------------------------------------------------------ non-vacuity *)
Definition pA : string := "peerA".
Definition pB : string := "peerB".
Definition mk (ip port : N) (p : string) (s f seen : N) : arec :=
  {| a_addr := [Ip4 ip; Udp port; QuicV1; P2p p]; a_s := s; a_f := f; a_seen := seen |}.
Definition ex_cfg : config := {| max_peers := 2; max_addrs := 2; expiry := 100 |}.
Definition ex_cache : cache :=
  [(pA, [mk 1 1 pA 5 1 950; mk 2 1 pA 1 3 990; mk 3 1 pA 2 0 100; mk 4 1 pA 2 2 960; mk 5 1 pA 9 0 999]);
   (pB, [mk 6 1 pB 1 0 800]);
   ("peerC"%string, [mk 7 1 "peerC" 1 0 990]);
   ("peerD"%string, [mk 8 1 "peerD" 0 1 990])].

(* unreliable (1/3), expired (seen 100) and over-limit addresses go; peerB, expired, goes; peerD has
   nothing left; two peers remain *)
Example cleanup_example :
  perform_cleanup ex_cfg 1000 ex_cache =
  [(pA, [mk 1 1 pA 5 1 950; mk 4 1 pA 2 2 960]); ("peerC"%string, [mk 7 1 "peerC" 1 0 990])].
Proof. vm_compute. reflexivity. Qed.

Example evict_oldest_example :
  perform_cleanup {| max_peers := 1; max_addrs := 2; expiry := 500 |} 1000 ex_cache =
  [("peerC"%string, [mk 7 1 "peerC" 1 0 990])].
Proof. vm_compute. reflexivity. Qed.

Example clean_inhabited : clean ex_cfg 1000 (perform_cleanup ex_cfg 1000 ex_cache).
Proof.
  rewrite cleanup_example. split; [vm_compute; discriminate|].
  intros p l [E|[E|[]]]; injection E as <- <-; (split; [discriminate|]); (split; [vm_compute; discriminate|]);
    intros r Hr; cbn in Hr; intuition (subst; reflexivity).
Qed.

Example sync_example :
  let a := [(pA, [mk 1 1 pA 2 1 10])] in
  let b := [(pA, [mk 1 1 pA 3 0 20; mk 2 1 pA 1 0 5]); (pB, [mk 6 1 pB 1 0 7])] in
  cache_sync a b = [(pA, [mk 1 1 pA 5 1 20; mk 2 1 pA 1 0 5]); (pB, [mk 6 1 pB 1 0 7])] /\
  has_addr a pA (a_addr (mk 1 1 pA 0 0 0)) /\ has_addr b pB (a_addr (mk 6 1 pB 0 0 0)).
Proof. repeat split; try (vm_compute; reflexivity); eexists; split; vm_compute; reflexivity. Qed.

(* saturation: the counters reset instead of overflowing *)
Example sync_saturates_example :
  arec_sync (mk 1 1 pA 4294967290 7 10) (mk 1 1 pA 10 1 20) = mk 1 1 pA 1 0 20 /\
  update_status true 30 (mk 1 1 pA 4294967295 7 10) = mk 1 1 pA 1 0 30 /\
  update_status false 30 (mk 1 1 pA 3 4294967295 10) = mk 1 1 pA 0 1 30.
Proof. vm_compute. repeat split; reflexivity. Qed.

Example add_addr_example :
  let raw := [Other "/dns/x"; Ip4 9; Tcp 4; Udp 5; QuicV1; P2p pA; Ws "/"] in
  add_addr ex_cfg 1000 [] raw = [(pA, [{| a_addr := [Ip4 9; Udp 5; QuicV1; P2p pA]; a_s := 1; a_f := 0; a_seen := 1000 |}])] /\
  add_addr ex_cfg 1000 [] [Ip4 9; Udp 5] = [] /\
  all_wf (add_addr ex_cfg 1000 [] raw).
Proof.
  repeat split; try (vm_compute; reflexivity). apply all_wf_b_iff. vm_compute. reflexivity.
Qed.

Example history_example :
  let ops := [(10, OpAdd [Ip4 1; Udp 1; P2p pA]); (20, OpAdd [Ip4 2; Tcp 1; Ws "/"; P2p pB]);
              (30, OpStatus [Ip4 2; Tcp 1; Ws "/"; P2p pB] false); (31, OpStatus [Ip4 2; Tcp 1; Ws "/"; P2p pB] false);
              (40, OpSync [("peerC"%string, [mk 7 1 "peerC" 1 0 35])]); (50, OpCleanup)] in
  run ex_cfg ops [] = [(pA, [{| a_addr := [Ip4 1; Udp 1; P2p pA]; a_s := 1; a_f := 0; a_seen := 10 |}]);
                       ("peerC"%string, [mk 7 1 "peerC" 1 0 35])] /\
  syncs_wf ops.
Proof.
  split; [vm_compute; reflexivity|]. apply syncs_wf_b. vm_compute. reflexivity.
Qed.

Example atomic_example :
  let steps := [WriteChunk 1 "{"; WriteChunk 2 "{b"; WriteChunk 1 "a}"; Commit 1; WriteChunk 2 "}"; Commit 2] in
  map (fun n => target (run_fs (fresh_fs (Some "{}"%string)) (firstn n steps))) [0; 3; 4; 5; 6]%nat =
  [Some "{}"; Some "{}"; Some "{a}"; Some "{a}"; Some "{b}"]%string.
Proof. vm_compute. reflexivity. Qed.

Lemma default_config_ok :
  max_peers default_config = 1500 /\ max_addrs default_config = 6 /\ expiry default_config = 86400 * 1000000000.
Proof. repeat split; reflexivity. Qed.

(* load_cache_data does not re-validate what the file holds (the source says so: "Make sure to have
   clean addrs inside the cache as we don't call craft_valid_multiaddr"): a schema-valid foreign file
   brings in an address without transport and peer id *)
Lemma foreign_file_unvalidated_refuted_lemma :
  exists dec cfg now file c, load_cache dec cfg now file = Ok c /\ ~ all_wf c.
Proof.
  exists (fun _ => Some [("p"%string, [{| a_addr := [Ip4 1]; a_s := 1; a_f := 0; a_seen := 10 |}])]),
    default_config, 20, (Some EmptyString).
  eexists. split; [vm_compute; reflexivity|]. rewrite <- all_wf_b_iff. vm_compute. discriminate.
Qed.

(* ------------------------------------------------------------------ the acceptor used by the correspondence *)
(* whatever eviction the implementation chose, if the acceptor accepts it the peer bound holds *)
Lemma acceptor_bounded cfg now tol pre post :
  remove_oldest_ok cfg now tol pre post = true -> len post <= max_peers cfg.
Proof.
  unfold remove_oldest_ok. intros H. apply andb_true_iff in H. destruct H as [H _].
  apply andb_true_iff in H. destruct H as [_ H]. apply N.eqb_eq in H. lia.
Qed.

(* the model's own choice (last maximum in list order) is one the acceptor accepts *)
Example acceptor_accepts_model_choice :
  let pre := map (fun pl => (fst pl, truncate_addrs ex_cfg (snd pl))) (clean_peers ex_cfg 1000 ex_cache) in
  forallb (fun mp => remove_oldest_ok {| max_peers := mp; max_addrs := 2; expiry := 100 |} 1000 0 pre
                       (try_remove_oldest {| max_peers := mp; max_addrs := 2; expiry := 100 |} 1000 pre))
          [0; 1; 2; 3] = true /\
  (* and it rejects evicting the newer peer *)
  remove_oldest_ok {| max_peers := 1; max_addrs := 2; expiry := 100 |} 1000 0 pre
    [(pA, [mk 1 1 pA 5 1 950; mk 4 1 pA 2 2 960])] = false.
Proof. vm_compute. split; reflexivity. Qed.

(* ------------------------------------------------------------------ SystemTime arithmetic *)
(* the expiry test of the code cannot panic: duration_since has no panicking branch *)
Lemma st_duration_since_no_panic later earlier : st_duration_since later earlier <> Panic.
Proof. unfold st_duration_since. destruct (_ <=? _); discriminate. Qed.

Lemma unexpired_spec cfg now r :
  unexpired cfg now r = (a_seen r <=? now) && (now - a_seen r <? expiry cfg).
Proof. unfold unexpired, st_duration_since. destruct (a_seen r <=? now); reflexivity. Qed.

(* written with `last_seen + expiry` the same test panics for a last_seen within `expiry` of the largest
   SystemTime -- which a cache file can hold (serde accepts secs_since_epoch up to i64::MAX) *)
Lemma expiry_by_addition_refuted_lemma :
  exists cfg now r, a_seen r <= ST_MAX /\ unexpired_by_addition cfg now r = Panic /\ unexpired cfg now r = false.
Proof.
  exists default_config, 1790000000000000000,
    {| a_addr := []; a_s := 1; a_f := 0; a_seen := 9223372036854775807 * 1000000000 |}.
  repeat split; vm_compute; try reflexivity. discriminate.
Qed.

(* and away from that corner the two formulations agree *)
Lemma expiry_by_addition_agrees cfg now r :
  a_seen r + expiry cfg <= ST_MAX -> unexpired_by_addition cfg now r = Ok (unexpired cfg now r).
Proof.
  intros H. unfold unexpired_by_addition, st_add. destruct (N.leb_spec (a_seen r + expiry cfg) ST_MAX); [|lia].
  cbn [bind]. rewrite unexpired_spec. f_equal.
  destruct (N.leb_spec (a_seen r) now) as [L|L]; cbn [andb]; [|reflexivity].
  destruct (N.ltb_spec now (a_seen r + expiry cfg)), (N.ltb_spec (now - a_seen r) (expiry cfg)); try reflexivity; lia.
Qed.

(* ------------------------------------------------------------------ the two path fields of the store *)
Lemma fs_get_set fs p c q : fs_get (fs_set fs p c) q = if String.eqb p q then Some c else fs_get fs q.
Proof.
  induction fs as [|[k c0] t IH]; cbn.
  - destruct (String.eqb p q); reflexivity.
  - destruct (String.eqb_spec k p) as [->|NE]; cbn.
    + destruct (String.eqb p q); reflexivity.
    + rewrite IH. destruct (String.eqb_spec k q) as [->|NE2].
      * destruct (String.eqb_spec p q) as [->|]; [congruence | reflexivity].
      * reflexivity.
Qed.

(* every constructor leaves the two copies of the path equal *)
Lemma ctor_paths_agree_lemma :
  (forall p, st_cache_path (store_new p) = st_cfg_path (store_new p)) /\
  (forall dflt cp pa fs, let st := fst (store_from_peers_args dflt cp pa fs) in st_cache_path st = st_cfg_path st).
Proof. split; reflexivity. Qed.

Lemma store_add_paths cfg now st raw :
  st_cache_path (store_add cfg now st raw) = st_cache_path st /\ st_cfg_path (store_add cfg now st raw) = st_cfg_path st /\
  st_disable (store_add cfg now st raw) = st_disable st.
Proof. repeat split. Qed.

(* with equal paths: what a flush writes is what a load through the same store (or one with the same paths)
   reads next, and no other file changes *)
Lemma flush_then_load_lemma cfg now st fs :
  st_cache_path st = st_cfg_path st -> st_disable st = false ->
  let r := store_flush cfg now st fs in
  exists out, fs_get (snd r) (st_cfg_path st) = Some out /\ bounded cfg out /\
              store_load cfg now (fst r) (snd r) = Some (perform_cleanup cfg now out) /\
              forall q, q <> st_cache_path st -> fs_get (snd r) q = fs_get fs q.
Proof.
  intros P D. unfold store_flush. rewrite D. cbn [fst snd]. eexists. split; [|split; [|split]].
  - rewrite fs_get_set, P, String.eqb_refl. reflexivity.
  - apply bounded_try_remove. intros p l Hin. apply In_perform_cleanup in Hin.
    destruct Hin as (l0 & _ & _ & L & _). exact L.
  - unfold store_load. cbn [st_cfg_path]. rewrite fs_get_set, P, String.eqb_refl. reflexivity.
  - intros q NE. rewrite fs_get_set. destruct (String.eqb_spec (st_cache_path st) q); [congruence | reflexivity].
Qed.

(* nothing in memory is missing from the merged cache the flush cleans and writes (C18: merge loses nothing) *)
Lemma flush_merges_memory_lemma cfg now st fs d p x :
  st_disable st = false -> fs_get fs (st_cfg_path st) = Some d ->
  has_addr (st_mem st) p x \/ has_addr (perform_cleanup cfg now d) p x ->
  has_addr (cache_sync (st_mem st) (perform_cleanup cfg now d)) p x.
Proof. intros _ _ H. apply sync_loses_nothing_lemma. exact H. Qed.

(* the override applied after construction: the flush merges with one file and overwrites another, and a store
   constructed the same way does not load the flushed peers back *)
Lemma late_override_refuted_lemma :
  exists cfg now pa fs raw,
    let b := store_from_peers_args_late "default" (Some "config"%string) pa fs in
    let st := store_add cfg now (fst b) raw in
    let r := store_flush cfg now st (snd b) in
    st_cache_path st <> st_cfg_path st /\
    (* the custom-dir file, which is the one read, is unchanged; the config's file is overwritten *)
    fs_get (snd r) "custom" = fs_get fs "custom" /\ fs_get (snd r) "config" <> fs_get fs "config" /\
    (* reload through an identically constructed store misses the peer that was added *)
    match store_load cfg now (fst (store_from_peers_args_late "default" (Some "config"%string) pa (snd r))) (snd r) with
    | Some c => lookup c pA = None
    | None => False
    end /\
    (* while the real constructor gives it back *)
    let b' := store_from_peers_args "default" (Some "config"%string) pa fs in
    let r' := store_flush cfg now (store_add cfg now (fst b') raw) (snd b') in
    match store_load cfg now (fst (store_from_peers_args "default" (Some "config"%string) pa (snd r'))) (snd r') with
    | Some c => lookup c pA <> None
    | None => False
    end.
Proof.
  exists ex_cfg, 1000, {| pa_first := false; pa_local := false; pa_dir := Some "custom"%string |},
    [("config"%string, [(pB, [mk 6 1 pB 1 0 990])]); ("custom"%string, [("peerC"%string, [mk 7 1 "peerC" 1 0 990])])],
    [Ip4 1; Udp 1; QuicV1; P2p pA].
  cbn zeta. repeat split; try (vm_compute; congruence); vm_compute; discriminate.
Qed.

(* ------------------------------------------------------------------ merging two entries of one address *)
(* the saturating merge never leaves the u32 range (so there is nothing to overflow or wrap), whatever the counters *)
Lemma arec_sync_bounded_lemma self other :
  a_s self <= U32MAX -> a_f self <= U32MAX ->
  a_s (arec_sync self other) <= U32MAX /\ a_f (arec_sync self other) <= U32MAX.
Proof.
  intros Hs Hf. unfold arec_sync. destruct (a_seen self =? a_seen other); [auto|]. cbn [a_s a_f].
  unfold sat_add. destruct (N.min (a_s self + a_s other) U32MAX =? U32MAX); cbn [fst snd]; [unfold U32MAX; lia|].
  destruct (N.min (a_f self + a_f other) U32MAX =? U32MAX); cbn [fst snd]; [unfold U32MAX; lia|]. lia.
Qed.

(* the documented rule: saturating sums, restarted when one of them reaches the maximum *)
Lemma arec_sync_rule self other :
  a_seen self <> a_seen other ->
  let s := N.min (a_s self + a_s other) U32MAX in let f := N.min (a_f self + a_f other) U32MAX in
  (a_s (arec_sync self other), a_f (arec_sync self other)) =
    (if s =? U32MAX then (1, 0) else if f =? U32MAX then (0, 1) else (s, f)) /\
  a_seen (arec_sync self other) = N.max (a_seen self) (a_seen other) /\ a_addr (arec_sync self other) = a_addr self.
Proof.
  intros NE. unfold arec_sync. destruct (N.eqb_spec (a_seen self) (a_seen other)); [congruence|].
  cbn [a_s a_f a_seen a_addr]. unfold sat_add.
  destruct (_ =? U32MAX); [auto|]. destruct (_ =? U32MAX); auto.
Qed.

Lemma sync_wrapping_refuted_lemma :
  let file := mk 1 1 pA 4294967295 0 10 in let mem := mk 1 1 pA 1 0 20 in
  arec_sync_unchecked Debug mem file = Panic /\
  (exists r, arec_sync_unchecked Release mem file = Ok r /\ a_s r = 0) /\
  arec_sync mem file = mk 1 1 pA 1 0 20.
Proof. repeat split; try (vm_compute; reflexivity). eexists. split; vm_compute; reflexivity. Qed.

(* away from the ends the unchecked merge and the code's merge agree *)
Lemma arec_sync_unchecked_agrees m self other :
  a_s self + a_s other <= U32MAX -> a_f self + a_f other <= U32MAX ->
  arec_sync_unchecked m self other = Ok (arec_sync self other).
Proof.
  intros Hs Hf. unfold arec_sync_unchecked, arec_sync, add_w, sat_add.
  destruct (a_seen self =? a_seen other); [reflexivity|].
  destruct (N.ltb_spec (a_s self + a_s other) U32); [|unfold U32, U32MAX in *; lia]. cbn [bind].
  destruct (N.ltb_spec (a_f self + a_f other) U32); [|unfold U32, U32MAX in *; lia]. cbn [bind].
  rewrite !N.min_l by assumption. reflexivity.
Qed.

(* a 65-byte text whose two-byte character covers bytes 63-64: showing "the first 64 bytes" by slicing panics *)
Lemma log_head_slice_refuted_lemma :
  let t := append (of_codes (repeat 35 63)) (of_codes [195; 164]) in
  slen t = 65 /\ log_head t = Panic /\ log_head (of_codes (repeat 35 64)) = Ok (of_codes (repeat 35 64)).
Proof. repeat split; vm_compute; reflexivity. Qed.

(* ------------------------------------------------------------------ write() replaces the file *)
Lemma write_then_read_lemma st fs : fs_get (store_write st fs) (st_cache_path st) = Some (st_mem st).
Proof. unfold store_write. rewrite fs_get_set, String.eqb_refl. reflexivity. Qed.

(* in particular an empty store written over a populated file leaves an empty cache, which loads as empty *)
Lemma write_empty_wipes_lemma cfg now st fs :
  st_mem st = [] -> st_cache_path st = st_cfg_path st ->
  store_load cfg now st (store_write st fs) = Some [].
Proof.
  intros E P. unfold store_load. rewrite <- P, write_then_read_lemma, E.
  unfold perform_cleanup, clean_peers, try_remove_oldest. cbn [map filter]. destruct (_ <? _); reflexivity.
Qed.

Lemma write_skip_empty_refuted_lemma :
  exists st fs, st_mem st = [] /\
    fs_get (store_write_skip_empty st fs) (st_cache_path st) <> Some [] /\
    fs_get (store_write st fs) (st_cache_path st) = Some [].
Proof.
  exists (store_new "p"), [("p"%string, [(pB, [mk 6 1 pB 1 0 990])])].
  split; [reflexivity|]. split; [vm_compute; discriminate | vm_compute; reflexivity].
Qed.

(* ------------------------------------------------------------------ one write() = stream into a private temporary, then rename *)
Definition sconcat (chunks : list string) : string := fold_right append EmptyString chunks.
Definition write_steps (w : nat) (chunks : list string) : list fs_step := map (WriteChunk w) chunks ++ [Commit w].

Lemma append_nil_r s : append s EmptyString = s.
Proof. induction s as [|c r IH]; cbn; congruence. Qed.

Lemma append_assoc3 a b c : append (append a b) c = append a (append b c).
Proof. induction a as [|x r IH]; cbn; congruence. Qed.

Lemma run_writes w chunks : forall st,
  target (run_fs st (map (WriteChunk w) chunks)) = target st /\
  temp_of (temps (run_fs st (map (WriteChunk w) chunks))) w = append (temp_of (temps st) w) (sconcat chunks).
Proof.
  unfold run_fs. induction chunks as [|c t IH]; intros st; cbn [map fold_left sconcat fold_right].
  - split; [reflexivity | rewrite append_nil_r; reflexivity].
  - destruct (IH (fs_do st (WriteChunk w c))) as [T P]. split.
    + rewrite T. reflexivity.
    + rewrite P. cbn [fs_do temps]. rewrite temp_of_set_temp, Nat.eqb_refl, append_assoc3. reflexivity.
Qed.

(* whether the file is absent (init = None) or present, at every instant of a write the target is either still the
   initial content or already the complete new text: there is no state with an empty or partial file *)
Lemma single_write_atomic_lemma init w chunks k :
  let st := run_fs (fresh_fs init) (firstn k (write_steps w chunks)) in
  target st = init \/ target st = Some (sconcat chunks).
Proof.
  cbn zeta. unfold write_steps.
  destruct (Nat.le_gt_cases k (List.length (map (WriteChunk w) chunks))) as [L|L].
  - left. rewrite firstn_app. replace (k - List.length (map (WriteChunk w) chunks))%nat with 0%nat by lia.
    cbn [firstn]. rewrite app_nil_r. rewrite firstn_map.
    destruct (run_writes w (firstn k chunks) (fresh_fs init)) as [T _]. exact T.
  - right. rewrite firstn_all2 by (rewrite app_length; cbn; lia).
    rewrite run_fs_snoc. cbn [fs_do target].
    destruct (run_writes w chunks (fresh_fs init)) as [_ P]. rewrite P. reflexivity.
Qed.
