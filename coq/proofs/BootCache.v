(* C18 / C17 -- lemmas about model/BootCache.v *)
From Coq Require Import List NArith ZArith String Ascii Bool Lia Arith ZifyBool ZifyNat ZifyN Permutation.
From V Require Import lib.Strs gen.Consts model.Parsers proofs.Parsers model.BootCache.
Import ListNotations.
Open Scope N_scope.
Ltac Zify.zify_post_hook ::= Z.div_mod_to_equations.

(* ------------------------------------------------------------------ C17: loading never panics *)
Lemma no_panic_load_cache_lemma dec cfg now file : load_cache dec cfg now file <> Panic.
Proof. unfold load_cache. destruct file as [t|]; [destruct (dec t)|]; discriminate. Qed.

(* F22: before the repair, eight reliable, unexpired addresses of one peer, one of them with
   success + failure = 2^32, made the clean-up on load overflow (debug build) *)
Definition f22_addr (i : N) : arec :=
  {| a_addr := [Ip4 i; Udp 1; P2p "p"]; a_s := 4294967295; a_f := 1; a_seen := 1000 |}.
Definition f22_cache : cache := [("p"%string, map f22_addr [1; 2; 3; 4; 5; 6; 7; 8])].

Lemma load_cache_unfixed_refuted_lemma :
  exists dec cfg now file,
    load_cache_unfixed Debug dec cfg now file = Panic /\
    (* the same file loads once the sum is widened, keeping max_addrs addresses *)
    exists c, load_cache dec cfg now file = Ok c /\ bounded_b cfg c = true.
Proof.
  exists (fun _ => Some f22_cache), default_config, 2000, (Some EmptyString).
  split; [vm_compute; reflexivity|]. eexists. split; vm_compute; reflexivity.
Qed.
