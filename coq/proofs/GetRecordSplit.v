(* C05 -- quorum reads: what callers get when peers disagree.  The transaction union built in
   accumulate_get_record_found, the SplitRecord error, and the merge in
   Network::handle_split_record_error with the map iteration order as an explicit argument. *)
From Coq Require Import List NArith Bool Lia Permutation Sorted.
From V Require Import gen.Consts model.GetRecord proofs.GetRecord proofs.GetRecordQuorum.
Import ListNotations.
Open Scope N_scope.

(* ------------------------------------------------------------------------------------------ *)
(* sorted duplicate-free sets                                                                  *)

Notation SS := (StronglySorted N.lt).

Lemma set_add_In : forall x l y, In y (set_add x l) <-> y = x \/ In y l.
Proof.
  induction l as [|z l IH]; intro y; cbn.
  - intuition.
  - destruct (N.ltb_spec x z); cbn; [intuition|].
    destruct (N.eqb_spec x z); cbn; [subst; intuition|]. rewrite IH. intuition.
Qed.

Lemma set_add_sorted : forall x l, SS l -> SS (set_add x l).
Proof.
  induction l as [|z l IH]; intro S; cbn.
  - constructor; constructor.
  - inversion S as [|? ? S' F]; subst.
    destruct (N.ltb_spec x z) as [L|L].
    + constructor; [exact S|]. constructor; [exact L|].
      rewrite Forall_forall in *. intros w Hw. specialize (F w Hw). lia.
    + destruct (N.eqb_spec x z) as [E|E]; [exact S|].
      constructor; [apply IH; exact S'|]. rewrite Forall_forall in *. intros w Hw.
      apply set_add_In in Hw. destruct Hw as [Hw|Hw]; [subst; lia | apply F; exact Hw].
Qed.

Lemma set_union_In : forall l acc y, In y (set_union acc l) <-> In y acc \/ In y l.
Proof.
  unfold set_union. induction l as [|x l IH]; intros acc y; cbn.
  - intuition.
  - rewrite IH, set_add_In. intuition.
Qed.

Lemma set_union_sorted : forall l acc, SS acc -> SS (set_union acc l).
Proof.
  unfold set_union. induction l as [|x l IH]; intros acc S; cbn; [exact S|].
  apply IH. apply set_add_sorted. exact S.
Qed.

Lemma sorted_ext : forall l1 l2, SS l1 -> SS l2 -> (forall x, In x l1 <-> In x l2) -> l1 = l2.
Proof.
  induction l1 as [|a l1 IH]; intros l2 S1 S2 H.
  - destruct l2 as [|b l2]; [reflexivity|]. exfalso. apply (H b). left. reflexivity.
  - destruct l2 as [|b l2]; [exfalso; apply (H a); left; reflexivity|].
    inversion S1 as [|? ? S1' F1]; inversion S2 as [|? ? S2' F2]; subst.
    rewrite Forall_forall in F1, F2.
    assert (E : a = b).
    { destruct (proj1 (H a) (or_introl eq_refl)) as [E|Ha]; [auto|].
      destruct (proj2 (H b) (or_introl eq_refl)) as [E|Hb]; [auto|].
      specialize (F2 a Ha). specialize (F1 b Hb). lia. }
    subst b. f_equal. apply IH; auto. intro x. split; intro Hx.
    + destruct (proj1 (H x) (or_intror Hx)) as [E|Hx']; [|exact Hx']. subst x. specialize (F1 a Hx). lia.
    + destruct (proj2 (H x) (or_intror Hx)) as [E|Hx']; [|exact Hx']. subst x. specialize (F2 a Hx). lia.
Qed.

Lemma set_union_idem_sorted : forall l, SS l -> set_union l l = l.
Proof.
  intros l S. apply sorted_ext; [apply set_union_sorted; exact S | exact S|].
  intro x. rewrite set_union_In. tauto.
Qed.

(* ------------------------------------------------------------------------------------------ *)
(* the transaction union sent when the quorum is reached on a split (kad.rs)                     *)

Definition tx_fold (acc : list N) (vs : list version) : list N :=
  fold_left (fun acc v => match get_transactions (fst v) with Some l => set_union acc l | None => acc end) vs acc.

Lemma tx_fold_spec : forall vs acc, SS acc ->
  SS (tx_fold acc vs) /\
  forall t, In t (tx_fold acc vs) <->
            In t acc \/ exists v l, In v vs /\ get_transactions (fst v) = Some l /\ In t l.
Proof.
  unfold tx_fold. induction vs as [|v vs IH]; intros acc S; cbn.
  - split; [exact S|]. intro t. split; [auto|]. intros [H|(v & l & [] & _)]. exact H.
  - destruct (get_transactions (fst v)) as [l|] eqn:G.
    + destruct (IH (set_union acc l) (set_union_sorted l acc S)) as [A B]. split; [exact A|].
      intro t. rewrite B, set_union_In. split.
      * intros [[H|H]|(v' & l' & H1 & H2 & H3)]; [left; exact H | right; exists v, l; auto | right; exists v', l'; auto].
      * intros [H|(v' & l' & [H1|H1] & H2 & H3)]; [auto | subst v'; rewrite G in H2; inversion H2; subst; auto |].
        right. exists v', l'. auto.
    + destruct (IH acc S) as [A B]. split; [exact A|]. intro t. rewrite B. split.
      * intros [H|(v' & l' & H1 & H2 & H3)]; [auto | right; exists v', l'; auto].
      * intros [H|(v' & l' & [H1|H1] & H2 & H3)]; [auto | subst v'; congruence | right; exists v', l'; auto].
Qed.

Lemma insert_version_len : forall vs r p, (1 <= length (fst (insert_version vs r p)))%nat.
Proof.
  intros vs r p. destruct (insert_version vs r p) as [vs' n] eqn:IV.
  destruct (insert_version_hit _ _ _ _ _ IV) as (r0 & ps & A & _). cbn. destruct vs'; [contradiction | cbn; lia].
Qed.

Lemma nlen_not_one : forall (A : Type) (l : list A), (1 <= length l)%nat -> (nlen l =? 1) = false ->
  (2 <= length l)%nat.
Proof.
  intros A l H1 H2. apply N.eqb_neq in H2. unfold nlen in H2.
  destruct l as [|a [|b l]]; cbn in *; try lia; try (exfalso; apply H2; reflexivity).
Qed.

(* Ok(merged record): only when a reply completes the quorum while several versions are present;
   the record is the sorted union of the transactions of all versions *)
Lemma merged_lemma : forall pre e c r, In (c, OMerged r) (step_outs (final pre) e) ->
  exists q po r1 x vers' U,
    e = Found q po r1 /\ find_query q (pending (final pre)) = Some x /\ In c (qcallers x) /\
    vers' = fst (insert_version (qvers x) r1 (peer_of po)) /\ (2 <= length vers')%nat /\
    r = {| rkey := rkey r1; rcont := tx_content U; rpub := None |} /\ SS U /\ U <> [] /\
    forall t, In t U <-> exists v l, In v vers' /\ get_transactions (fst v) = Some l /\ In t l.
Proof.
  intros pre e c r H. destruct e as [key cf|q p r1|q|q|q|q|c0].
  - contradiction.
  - unfold step_outs in H. cbn in H. unfold accumulate in H.
    destruct (find_query q (pending (final pre))) as [x|] eqn:F; [|contradiction].
    pose proof (insert_version_len (qvers x) r1 (peer_of p)) as LEN.
    destruct (insert_version (qvers x) r1 (peer_of p)) as [vers' n] eqn:IV. cbn in LEN.
    destruct (quorum_value (cq (qcfg x)) <=? n) eqn:Q; [|contradiction].
    match type of H with context [deliver ?d ?cs ?res] =>
      pose proof (deliver_in d cs res c (OMerged r)) as DI; destruct (deliver d cs res) as [oo rt] end.
    cbn in H. destruct (DI H) as (Hc & _ & [E|E]); [|discriminate].
    destruct (nlen vers' =? 1) eqn:L1.
    + unfold checked in E. destruct (does_target_match (qcfg x) r1); discriminate.
    + destruct (collect_txs vers') as [|t0 U'] eqn:CT; [discriminate|]. inversion E; subst r.
      exists q, p, r1, x, vers', (t0 :: U').
      destruct (tx_fold_spec vers' [] ltac:(constructor)) as [TA TB]. unfold tx_fold in TA, TB.
      unfold collect_txs in CT. rewrite CT in TA, TB.
      split; [reflexivity|]. split; [exact F|]. split; [exact Hc|]. split; [rewrite IV; reflexivity|].
      split; [apply nlen_not_one; assumption|]. split; [reflexivity|]. split; [exact TA|]. split; [discriminate|].
      intro t. rewrite TB. split; [intros [[]|Ht]; exact Ht | intro Ht; right; exact Ht].
  - apply finished_outs in H. destruct H as [H|[H|[(? & ? & ? & H & _)|(? & H & _)]]]; discriminate.
  - apply (fun H => not_found_outs _ q c (OMerged r) (or_introl H)) in H. destruct H; discriminate.
  - apply (fun H => not_found_outs _ q c (OMerged r) (or_intror H)) in H. destruct H; discriminate.
  - apply timeout_outs in H. destruct H; discriminate.
  - contradiction.
Qed.

(* SplitRecord: at least two versions with pairwise different content; every listed responder did
   return that content for this query, each listed once *)
Lemma split_lemma : forall pre e c vs, In (c, ESplit vs) (step_outs (final pre) e) ->
  exists q, (e = Finished q \/ exists po r, e = Found q po r) /\
    (2 <= length vs)%nat /\ NoDup (map vcont vs) /\
    forall r0 ps, In (r0, ps) vs ->
      NoDup ps /\ ps <> [] /\ forall p, In p ps -> replied (pre ++ [e]) q p (rcont r0).
Proof.
  intros pre e c vs H. destruct e as [key cf|q p r1|q|q|q|q|c0].
  - contradiction.
  - unfold step_outs in H. cbn in H. unfold accumulate in H.
    destruct (find_query q (pending (final pre))) as [x|] eqn:F; [|contradiction].
    destruct (find_query_split _ _ _ F) as (l1 & l2 & A & Bq & _).
    assert (Hx : In x (pending (final pre))) by (rewrite A; apply in_or_app; right; left; reflexivity).
    pose proof (insert_version_len (qvers x) r1 (peer_of p)) as LEN.
    pose proof (insert_version_contents (qvers x) r1 (peer_of p)) as CONT.
    pose proof (insert_version_nodup (qvers x) r1 (peer_of p)) as NDP.
    pose proof (insert_version_others (qvers x) r1 (peer_of p)) as OTH.
    destruct (insert_version (qvers x) r1 (peer_of p)) as [vers' n] eqn:IV. cbn in LEN, CONT, NDP, OTH.
    destruct (quorum_value (cq (qcfg x)) <=? n) eqn:Q; [|contradiction].
    match type of H with context [deliver ?d ?cs ?res] =>
      pose proof (deliver_in d cs res c (ESplit vs)) as DI; destruct (deliver d cs res) as [oo rt] end.
    cbn in H. destruct (DI H) as (Hc & _ & [E|E]); [|discriminate].
    destruct (nlen vers' =? 1) eqn:L1.
    + unfold checked in E. destruct (does_target_match (qcfg x) r1); discriminate.
    + destruct (collect_txs vers') as [|t0 U'] eqn:CT; [|discriminate]. inversion E; subst vs.
      exists q. split; [right; exists p, r1; reflexivity|]. split.
      { apply nlen_not_one; assumption. }
      split.
      { destruct CONT as [C|[C N]]; rewrite C.
        - apply (versions_distinct_lemma pre x Hx).
        - apply NoDup_snoc; [apply (versions_distinct_lemma pre x Hx) | exact N]. }
      intros r0 ps Hv.
      assert (NDall : Forall (fun v => NoDup (snd v)) vers').
      { apply NDP. apply Forall_forall. intros [r2 ps2] Hv2. apply (below_quorum_lemma pre x r2 ps2 Hx Hv2). }
      rewrite Forall_forall in NDall. split; [apply (NDall _ Hv)|].
      destruct (OTH _ _ Hv) as [Old|(E1 & E2 & E3)].
      * destruct (below_quorum_lemma pre x r0 ps Hx Old) as (_ & _ & NE). split; [exact NE|].
        intros p' Hp. apply replied_snoc. rewrite <- Bq. eapply hinv_all; eauto.
      * split.
        { intro E0. subst ps. destruct (insert_version_hit _ _ _ _ _ IV) as (r9 & ps9 & _ & _ & I9 & N9).
          rewrite <- E2 in N9. unfold nlen in N9. cbn in N9. destruct ps9; [contradiction | cbn in N9; lia]. }
        intros p' Hp. destruct (E3 p' Hp) as [Ep|(ps0 & F1 & F2)].
        -- subst p'. exists p, r1. split; [apply in_or_app; right; left; reflexivity | auto].
        -- apply replied_snoc. rewrite <- Bq. eapply hinv_all; eauto.
  - unfold step_outs in H. cbn in H. unfold finished in H.
    destruct (find_query q (pending (final pre))) as [x|] eqn:F; [|contradiction].
    destruct (find_query_split _ _ _ F) as (l1 & l2 & A & Bq & _).
    assert (Hx : In x (pending (final pre))) by (rewrite A; apply in_or_app; right; left; reflexivity).
    match type of H with context [deliver ?d ?cs ?res] =>
      pose proof (deliver_in d cs res c (ESplit vs)) as DI; destruct (deliver d cs res) as [oo rt] end.
    cbn in H. destruct (DI H) as (Hc & _ & [E|E]); [|discriminate].
    destruct (qvers x) as [|[r ps] [|v2 rest]] eqn:QV; try discriminate.
    { destruct (_ <=? _); discriminate. }
    inversion E; subst vs. exists q. split; [left; reflexivity|]. split; [cbn; lia|]. split.
    { rewrite <- QV. apply (versions_distinct_lemma pre x Hx). }
    intros r0 ps0 Hv. rewrite <- QV in Hv.
    destruct (below_quorum_lemma pre x r0 ps0 Hx Hv) as (N1 & _ & N3). split; [exact N1|]. split; [exact N3|].
    intros p' Hp. apply replied_snoc. rewrite <- Bq. eapply hinv_all; eauto.
  - apply (fun H => not_found_outs _ q c (ESplit vs) (or_introl H)) in H. destruct H; discriminate.
  - apply (fun H => not_found_outs _ q c (ESplit vs) (or_intror H)) in H. destruct H; discriminate.
  - apply timeout_outs in H. destruct H; discriminate.
  - contradiction.
Qed.

(* ------------------------------------------------------------------------------------------ *)
(* handle_split_record_error: the accumulator splits into independent components once the kind   *)
(* is fixed                                                                                    *)

Fixpoint first_kind (l : list record) : option kind :=
  match l with
  | [] => None
  | r :: t => match ckind (rcont r) with Some k => Some k | None => first_kind t end
  end.

Definition tx_items (k0 : kind) (r : record) : list N :=
  match ckind (rcont r) with
  | Some k => if kind_eqb k0 k then match k0, cpay (rcont r) with KTx, PTx l => l | _, _ => [] end else []
  | None => []
  end.

Definition reg_items (k0 : kind) (r : record) : list (N * list N * N) :=
  match ckind (rcont r) with
  | Some k => if kind_eqb k0 k then
                match k0, cpay (rcont r) with KReg, PReg b true ops salt => [(b, ops, salt)] | _, _ => [] end
              else []
  | None => []
  end.

Definition pad_items (k0 : kind) (r : record) : list (N * N) :=
  match ckind (rcont r) with
  | Some k => if kind_eqb k0 k then
                match k0, cpay (rcont r) with KPad, PPad true c d => [(c, d)] | _, _ => [] end
              else []
  | None => []
  end.

Definition best (a : option (N * N)) (x : N * N) : option (N * N) :=
  match a with
  | Some (c0, d0) => if fst x <=? c0 then a else Some x
  | None => Some x
  end.

Definition comp (k0 : kind) (a : sacc) (r : record) : sacc :=
  {| a_kind := Some k0;
     a_txs := set_union (a_txs a) (tx_items k0 r);
     a_regs := a_regs a ++ reg_items k0 r;
     a_pad := fold_left best (pad_items k0 r) (a_pad a) |}.

Lemma split_step_comp : forall a r k0,
  a_kind a = Some k0 \/ (a_kind a = None /\ ckind (rcont r) = Some k0) ->
  split_step a r = comp k0 a r.
Proof.
  intros [ak at_ ar ap] [rk [ck cp] rp] k0 H. unfold split_step, comp, tx_items, reg_items, pad_items.
  cbn in *. destruct H as [H|[H1 H2]].
  - subst ak. destruct ck as [k|]; cbn; [|rewrite app_nil_r; reflexivity].
    destruct (kind_eqb k0 k) eqn:E; cbn; [|rewrite app_nil_r; reflexivity].
    destruct k0; destruct cp as [l|b v ops salt|v c d|i]; try destruct v; cbn; rewrite ?app_nil_r; try reflexivity;
      destruct ap as [[c0 d0]|]; cbn; [destruct (c <=? c0); reflexivity | reflexivity].
  - subst ak ck. cbn. assert (E : kind_eqb k0 k0 = true) by (apply kind_eqb_eq; reflexivity). rewrite E. cbn.
    destruct k0; destruct cp as [l|b v ops salt|v c d|i]; try destruct v; cbn; rewrite ?app_nil_r; try reflexivity;
      destruct ap as [[c0 d0]|]; cbn; [destruct (c <=? c0); reflexivity | reflexivity].
Qed.

Lemma fold_comp : forall k0 l a, a_kind a = Some k0 ->
  fold_left split_step l a =
  {| a_kind := Some k0;
     a_txs := fold_left (fun t r => set_union t (tx_items k0 r)) l (a_txs a);
     a_regs := a_regs a ++ flat_map (reg_items k0) l;
     a_pad := fold_left best (flat_map (pad_items k0) l) (a_pad a) |}.
Proof.
  induction l as [|r l IH]; intros a H; cbn.
  - rewrite app_nil_r. destruct a; cbn in *; subst; reflexivity.
  - rewrite split_step_comp with (k0 := k0) by (left; exact H).
    rewrite IH by reflexivity. cbn. rewrite fold_left_app, <- app_assoc. reflexivity.
Qed.

Lemma split_step_unparsable : forall a r, ckind (rcont r) = None -> split_step a r = a.
Proof. intros a r H. unfold split_step. rewrite H. reflexivity. Qed.

Lemma items_unparsable : forall k0 r, ckind (rcont r) = None ->
  tx_items k0 r = [] /\ reg_items k0 r = [] /\ pad_items k0 r = [].
Proof. intros k0 r H. unfold tx_items, reg_items, pad_items. rewrite H. auto. Qed.

Lemma fold_split_init : forall l,
  fold_left split_step l sacc0 =
  match first_kind l with
  | None => sacc0
  | Some k0 =>
      {| a_kind := Some k0;
         a_txs := fold_left (fun t r => set_union t (tx_items k0 r)) l [];
         a_regs := flat_map (reg_items k0) l;
         a_pad := fold_left best (flat_map (pad_items k0) l) None |}
  end.
Proof.
  induction l as [|r l IH]; cbn; [reflexivity|].
  destruct (ckind (rcont r)) as [k|] eqn:K.
  - rewrite split_step_comp with (k0 := k) by (right; split; [reflexivity | exact K]).
    rewrite fold_comp with (k0 := k) by reflexivity. cbn. rewrite fold_left_app. reflexivity.
  - rewrite split_step_unparsable by exact K. rewrite IH.
    destruct (first_kind l) as [k0|]; [|reflexivity].
    destruct (items_unparsable k0 r K) as (E1 & E2 & E3). rewrite E1, E2, E3. cbn. reflexivity.
Qed.

(* the three components *)

Definition tx_comp (k0 : kind) (l : list record) : list N :=
  fold_left (fun t r => set_union t (tx_items k0 r)) l [].

Lemma tx_comp_gen : forall k0 l acc, SS acc ->
  SS (fold_left (fun t r => set_union t (tx_items k0 r)) l acc) /\
  forall t, In t (fold_left (fun t r => set_union t (tx_items k0 r)) l acc) <->
            In t acc \/ exists r, In r l /\ In t (tx_items k0 r).
Proof.
  induction l as [|r l IH]; intros acc S; cbn.
  - split; [exact S|]. intro t. split; [auto|]. intros [H|(r & [] & _)]. exact H.
  - destruct (IH (set_union acc (tx_items k0 r)) (set_union_sorted _ _ S)) as [A B]. split; [exact A|].
    intro t. rewrite B, set_union_In. split.
    + intros [[H|H]|(r' & H1 & H2)]; [auto | right; exists r; auto | right; exists r'; auto].
    + intros [H|(r' & [H1|H1] & H2)]; [auto | subst; auto | right; exists r'; auto].
Qed.

Lemma tx_comp_perm : forall k0 l l', Permutation l l' -> tx_comp k0 l = tx_comp k0 l'.
Proof.
  intros k0 l l' P. unfold tx_comp.
  destruct (tx_comp_gen k0 l [] ltac:(constructor)) as [A B].
  destruct (tx_comp_gen k0 l' [] ltac:(constructor)) as [A' B'].
  apply sorted_ext; auto. intro t. rewrite B, B'. split; intros [[]|(r & H1 & H2)]; right; exists r; split; auto.
  - eapply Permutation_in; eauto.
  - eapply Permutation_in; [apply Permutation_sym|]; eauto.
Qed.

(* registers: all collected ones share base and salt outside the known class *)
Definition ops_union (regs : list (N * list N * N)) (acc : list N) : list N :=
  fold_left (fun a g => set_union a (snd (fst g))) regs acc.

Lemma merge_regs_same : forall regs b ops salt,
  (forall g, In g regs -> fst (fst g) = b) ->
  merge_regs (b, ops, salt) regs = (b, ops_union regs ops, salt).
Proof.
  unfold merge_regs, ops_union. induction regs as [|[[b' ops'] s'] regs IH]; intros b ops salt H; cbn.
  - reflexivity.
  - assert (E : b' = b) by (apply (H (b', ops', s')); left; reflexivity). subst b'.
    rewrite N.eqb_refl. apply IH. intros g Hg. apply H. right. exact Hg.
Qed.

Lemma ops_union_spec : forall regs acc, SS acc ->
  SS (ops_union regs acc) /\
  forall t, In t (ops_union regs acc) <-> In t acc \/ exists g, In g regs /\ In t (snd (fst g)).
Proof.
  unfold ops_union. induction regs as [|g regs IH]; intros acc S; cbn.
  - split; [exact S|]. intro t. split; [auto|]. intros [H|(g & [] & _)]. exact H.
  - destruct (IH (set_union acc (snd (fst g))) (set_union_sorted _ _ S)) as [A B]. split; [exact A|].
    intro t. rewrite B, set_union_In. split.
    + intros [[H|H]|(g' & H1 & H2)]; [auto | right; exists g; auto | right; exists g'; auto].
    + intros [H|(g' & [H1|H1] & H2)]; [auto | subst; auto | right; exists g'; auto].
Qed.

Definition reg_result (regs : list (N * list N * N)) : option (N * list N * N) :=
  match regs with
  | [] => None
  | first :: _ => Some (merge_regs first regs)
  end.

Lemma reg_result_perm : forall regs regs' b salt,
  Permutation regs regs' ->
  (forall g, In g regs -> fst (fst g) = b /\ snd g = salt /\ SS (snd (fst g))) ->
  reg_result regs = reg_result regs'.
Proof.
  intros regs regs' b salt P H.
  assert (H' : forall g, In g regs' -> fst (fst g) = b /\ snd g = salt /\ SS (snd (fst g))).
  { intros g Hg. apply H. eapply Permutation_in; [apply Permutation_sym|]; eauto. }
  destruct regs as [|[[b1 o1] s1] rest]; destruct regs' as [|[[b2 o2] s2] rest'].
  - reflexivity.
  - apply Permutation_nil in P. discriminate.
  - apply Permutation_sym, Permutation_nil in P. discriminate.
  - unfold reg_result.
    destruct (H (b1, o1, s1) (or_introl eq_refl)) as (E1 & E2 & E3). cbn in E1, E2, E3. subst b1 s1.
    destruct (H' (b2, o2, s2) (or_introl eq_refl)) as (F1 & F2 & F3). cbn in F1, F2, F3. subst b2 s2.
    rewrite !merge_regs_same by (intros g Hg; first [apply (H g Hg) | apply (H' g Hg)]).
    destruct (ops_union_spec ((b, o1, salt) :: rest) o1 E3) as [A B].
    destruct (ops_union_spec ((b, o2, salt) :: rest') o2 F3) as [A' B'].
    assert (EQ : ops_union ((b, o1, salt) :: rest) o1 = ops_union ((b, o2, salt) :: rest') o2);
      [|rewrite EQ; reflexivity].
    apply sorted_ext; auto. intro t. rewrite B, B'. split.
    + intros [Ht|(g & Hg & Ht)].
      * right. exists (b, o1, salt). split; [eapply Permutation_in; eauto; left; reflexivity | exact Ht].
      * right. exists g. split; [eapply Permutation_in; eauto | exact Ht].
    + intros [Ht|(g & Hg & Ht)].
      * right. exists (b, o2, salt). split; [eapply Permutation_in; [apply Permutation_sym; eauto|]; left; reflexivity | exact Ht].
      * right. exists g. split; [eapply Permutation_in; [apply Permutation_sym; eauto|]; exact Hg | exact Ht].
Qed.

(* scratchpads: the fold keeps a pad with the highest counter *)
Lemma best_spec : forall l a,
  match fold_left best l a with
  | None => a = None /\ l = []
  | Some (c, d) => (a = Some (c, d) \/ In (c, d) l) /\
                   (forall c' d', a = Some (c', d') \/ In (c', d') l -> c' <= c)
  end.
Proof.
  induction l as [|[c1 d1] l IH]; intro a; cbn.
  - destruct a as [[c d]|]; [|auto]. split; [auto|]. intros c' d' [H|[]]. inversion H. lia.
  - specialize (IH (best a (c1, d1))). destruct (fold_left best l (best a (c1, d1))) as [[c d]|].
    + destruct IH as [I1 I2]. unfold best in I1, I2. cbn in I1, I2. destruct a as [[c0 d0]|].
      * destruct (N.leb_spec c1 c0) as [L|L].
        -- split; [destruct I1 as [I1|I1]; auto|].
           intros c' d' [H|[H|H]]; [apply (I2 c' d'); auto | inversion H; subst | apply (I2 c' d'); auto].
           assert (c0 <= c) by (apply (I2 c0 d0); auto). lia.
        -- split; [destruct I1 as [I1|I1]; [inversion I1; subst; auto | auto]|].
           intros c' d' [H|[H|H]]; [inversion H; subst | inversion H; subst; apply (I2 c' d'); auto | apply (I2 c' d'); auto].
           assert (c1 <= c) by (apply (I2 c1 d1); auto). lia.
      * split; [destruct I1 as [I1|I1]; [inversion I1; subst; auto | auto]|].
        intros c' d' [H|[H|H]]; [discriminate | inversion H; subst; apply (I2 c' d'); auto | apply (I2 c' d'); auto].
    + destruct IH as [I1 _]. unfold best in I1. destruct a as [[c0 d0]|]; [destruct (_ <=? _)|]; discriminate.
Qed.

Lemma best_perm : forall l l', Permutation l l' ->
  (forall c d1 d2, In (c, d1) l -> In (c, d2) l -> d1 = d2) ->
  fold_left best l None = fold_left best l' None.
Proof.
  intros l l' P NT. pose proof (best_spec l None) as S. pose proof (best_spec l' None) as S'.
  destruct (fold_left best l None) as [[c d]|]; destruct (fold_left best l' None) as [[c' d']|].
  - destruct S as [[S1|S1] S2]; [discriminate|]. destruct S' as [[S1'|S1'] S2']; [discriminate|].
    assert (In (c', d') l) by (eapply Permutation_in; [apply Permutation_sym|]; eauto).
    assert (In (c, d) l') by (eapply Permutation_in; eauto).
    assert (c' <= c) by (apply (S2 c' d'); auto). assert (c <= c') by (apply (S2' c d); auto).
    assert (c = c') by lia. subst c'. f_equal. f_equal. eapply NT; eauto.
  - destruct S' as [_ S']. subst l'. apply Permutation_sym, Permutation_nil in P. subst l.
    destruct S as [[S|[]] _]. discriminate.
  - destruct S as [_ S]. subst l. apply Permutation_nil in P. subst l'.
    destruct S' as [[S'|[]] _]. discriminate.
  - reflexivity.
Qed.

(* ------------------------------------------------------------------------------------------ *)
(* the closed form of handle_split                                                             *)

Definition result_of (key : N) (txs : list N) (regs : option (N * list N * N)) (pad : option (N * N))
  : option record :=
  if 1 <? nlen txs then Some {| rkey := key; rcont := tx_content txs; rpub := None |}
  else match regs with
       | Some (b, ops, salt) =>
           Some {| rkey := key; rcont := {| ckind := Some KReg; cpay := PReg b true ops salt |}; rpub := None |}
       | None =>
           match pad with
           | Some (c, d) =>
               Some {| rkey := key; rcont := {| ckind := Some KPad; cpay := PPad true c d |}; rpub := None |}
           | None => None
           end
       end.

Lemma handle_split_closed : forall vers key,
  handle_split vers key =
  if 1 <? nlen vers then
    match first_kind vers with
    | None => None
    | Some k0 => result_of key (tx_comp k0 vers) (reg_result (flat_map (reg_items k0) vers))
                           (fold_left best (flat_map (pad_items k0) vers) None)
    end
  else None.
Proof.
  intros vers key. unfold handle_split. destruct (1 <? nlen vers); [|reflexivity].
  rewrite fold_split_init. destruct (first_kind vers) as [k0|]; [|reflexivity].
  unfold result_of, tx_comp, reg_result. cbn [a_txs a_regs a_pad].
  destruct (1 <? nlen _); [reflexivity|].
  destruct (flat_map (reg_items k0) vers) as [|first rest]; [reflexivity|].
  destruct (merge_regs first (first :: rest)) as [[b ops] salt]. reflexivity.
Qed.

(* ------------------------------------------------------------------------------------------ *)
(* the known class: inputs on which the result depends on the iteration order                    *)

Definition mixed_kinds (vers : list record) : Prop :=
  exists r1 r2 k1 k2, In r1 vers /\ In r2 vers /\
    ckind (rcont r1) = Some k1 /\ ckind (rcont r2) = Some k2 /\ k1 <> k2.

Definition forked_registers (vers : list record) : Prop :=
  exists r1 r2 b1 o1 s1 b2 o2 s2, In r1 vers /\ In r2 vers /\
    ckind (rcont r1) = Some KReg /\ ckind (rcont r2) = Some KReg /\
    cpay (rcont r1) = PReg b1 true o1 s1 /\ cpay (rcont r2) = PReg b2 true o2 s2 /\
    (b1 <> b2 \/ s1 <> s2).

Definition scratchpad_tie (vers : list record) : Prop :=
  exists r1 r2 c d1 d2, In r1 vers /\ In r2 vers /\
    ckind (rcont r1) = Some KPad /\ ckind (rcont r2) = Some KPad /\
    cpay (rcont r1) = PPad true c d1 /\ cpay (rcont r2) = PPad true c d2 /\ d1 <> d2.

Definition KnownOrderDependent (vers : list record) : Prop :=
  mixed_kinds vers \/ forked_registers vers \/ scratchpad_tie vers.

(* representation invariant of register payloads: the op set of a SignedRegister is a BTreeSet *)
Definition canonical (vers : list record) : Prop :=
  forall r b v ops salt, In r vers -> cpay (rcont r) = PReg b v ops salt -> SS ops.

Lemma first_kind_some : forall l k, first_kind l = Some k -> exists r, In r l /\ ckind (rcont r) = Some k.
Proof.
  induction l as [|r l IH]; intros k H; cbn in H; [discriminate|].
  destruct (ckind (rcont r)) as [k'|] eqn:K.
  - inversion H; subst. exists r. split; [left; reflexivity | exact K].
  - destruct (IH k H) as (r' & A & B). exists r'. split; [right; exact A | exact B].
Qed.

Lemma first_kind_none : forall l, first_kind l = None -> forall r, In r l -> ckind (rcont r) = None.
Proof.
  induction l as [|r l IH]; intros H r' Hr; [contradiction|]. cbn in H.
  destruct (ckind (rcont r)) as [k'|] eqn:K; [discriminate|].
  destruct Hr as [Hr|Hr]; [subst; exact K | apply IH; assumption].
Qed.

Lemma kind_eq_dec : forall a b : kind, {a = b} + {a <> b}.
Proof. decide equality. Qed.

Lemma first_kind_perm : forall l l', Permutation l l' -> ~ mixed_kinds l -> first_kind l = first_kind l'.
Proof.
  intros l l' P NM.
  destruct (first_kind l) as [k|] eqn:F; destruct (first_kind l') as [k'|] eqn:F'.
  - destruct (first_kind_some _ _ F) as (r & A & B). destruct (first_kind_some _ _ F') as (r' & A' & B').
    destruct (kind_eq_dec k k') as [E|E]; [subst; reflexivity|]. exfalso. apply NM.
    exists r, r', k, k'. repeat split; auto. eapply Permutation_in; [apply Permutation_sym|]; eauto.
  - destruct (first_kind_some _ _ F) as (r & A & B).
    rewrite (first_kind_none _ F' r) in B by (eapply Permutation_in; eauto). discriminate.
  - destruct (first_kind_some _ _ F') as (r & A & B).
    rewrite (first_kind_none _ F r) in B by (eapply Permutation_in; [apply Permutation_sym|]; eauto). discriminate.
  - reflexivity.
Qed.

Lemma reg_items_in : forall k0 vers g, In g (flat_map (reg_items k0) vers) ->
  k0 = KReg /\ exists r, In r vers /\ ckind (rcont r) = Some KReg /\
    cpay (rcont r) = PReg (fst (fst g)) true (snd (fst g)) (snd g).
Proof.
  intros k0 vers g H. apply in_flat_map in H. destruct H as (r & Hr & Hg).
  unfold reg_items in Hg. destruct (ckind (rcont r)) as [k|] eqn:K; [|contradiction].
  destruct (kind_eqb k0 k) eqn:E; [|contradiction]. apply kind_eqb_eq in E. subst k.
  destruct k0; try contradiction. destruct (cpay (rcont r)) as [l|b v ops salt|v c d|i] eqn:P; try contradiction.
  destruct v; [|contradiction]. destruct Hg as [Hg|[]]. subst g. cbn.
  split; [reflexivity|]. exists r. auto.
Qed.

Lemma reg_items_of : forall vers r b ops salt, In r vers -> ckind (rcont r) = Some KReg ->
  cpay (rcont r) = PReg b true ops salt -> In (b, ops, salt) (flat_map (reg_items KReg) vers).
Proof.
  intros vers r b ops salt Hr K P. apply in_flat_map. exists r. split; [exact Hr|].
  unfold reg_items. rewrite K, P. cbn. left. reflexivity.
Qed.

Lemma pad_items_in : forall k0 vers c d, In (c, d) (flat_map (pad_items k0) vers) ->
  k0 = KPad /\ exists r, In r vers /\ ckind (rcont r) = Some KPad /\ cpay (rcont r) = PPad true c d.
Proof.
  intros k0 vers c d H. apply in_flat_map in H. destruct H as (r & Hr & Hg).
  unfold pad_items in Hg. destruct (ckind (rcont r)) as [k|] eqn:K; [|contradiction].
  destruct (kind_eqb k0 k) eqn:E; [|contradiction]. apply kind_eqb_eq in E. subst k.
  destruct k0; try contradiction. destruct (cpay (rcont r)) as [l|b v ops salt|v c' d'|i] eqn:P; try contradiction.
  destruct v; [|contradiction]. destruct Hg as [Hg|[]]. inversion Hg; subst.
  split; [reflexivity|]. exists r. auto.
Qed.

Lemma pad_items_of : forall vers r c d, In r vers -> ckind (rcont r) = Some KPad ->
  cpay (rcont r) = PPad true c d -> In (c, d) (flat_map (pad_items KPad) vers).
Proof.
  intros vers r c d Hr K P. apply in_flat_map. exists r. split; [exact Hr|].
  unfold pad_items. rewrite K, P. cbn. left. reflexivity.
Qed.

Lemma nlen_perm : forall (A : Type) (l l' : list A), Permutation l l' -> nlen l = nlen l'.
Proof. intros A l l' P. unfold nlen. rewrite (Permutation_length P). reflexivity. Qed.

(* (d) outside the known class the merge does not depend on the iteration order of the map *)
Lemma merge_perm_invariant_lemma : forall vers vers' key,
  Permutation vers vers' -> canonical vers -> ~ KnownOrderDependent vers ->
  handle_split vers key = handle_split vers' key.
Proof.
  intros vers vers' key P CAN NK. rewrite !handle_split_closed.
  rewrite <- (nlen_perm _ _ _ P). destruct (1 <? nlen vers); [|reflexivity].
  rewrite <- (first_kind_perm _ _ P) by (intro M; apply NK; left; exact M).
  destruct (first_kind vers) as [k0|]; [|reflexivity].
  rewrite <- (tx_comp_perm k0 _ _ P).
  assert (PR : Permutation (flat_map (reg_items k0) vers) (flat_map (reg_items k0) vers'))
    by (apply Permutation_flat_map; exact P).
  assert (PP : Permutation (flat_map (pad_items k0) vers) (flat_map (pad_items k0) vers'))
    by (apply Permutation_flat_map; exact P).
  rewrite <- (best_perm _ _ PP).
  2:{ intros c d1 d2 H1 H2. destruct (pad_items_in _ _ _ _ H1) as (_ & r1 & A1 & B1 & C1).
      destruct (pad_items_in _ _ _ _ H2) as (_ & r2 & A2 & B2 & C2).
      destruct (N.eq_dec d1 d2) as [E|E]; [exact E|]. exfalso. apply NK. right. right.
      exists r1, r2, c, d1, d2. auto 10. }
  destruct (flat_map (reg_items k0) vers) as [|[[b o] s] rest] eqn:FR.
  - apply Permutation_nil in PR. rewrite PR. reflexivity.
  - rewrite <- (reg_result_perm _ _ b s PR); [reflexivity|].
    intros g Hg. rewrite <- FR in Hg.
    assert (H0 : In (b, o, s) (flat_map (reg_items k0) vers)) by (rewrite FR; left; reflexivity).
    destruct (reg_items_in _ _ _ H0) as (_ & r0 & A0 & B0 & C0). cbn in C0.
    destruct (reg_items_in _ _ _ Hg) as (_ & r & A & B & C).
    destruct (N.eq_dec (fst (fst g)) b) as [E1|E1]; [|exfalso; apply NK; right; left;
      exists r, r0, (fst (fst g)), (snd (fst g)), (snd g), b, o, s; auto 12].
    destruct (N.eq_dec (snd g) s) as [E2|E2]; [|exfalso; apply NK; right; left;
      exists r, r0, (fst (fst g)), (snd (fst g)), (snd g), b, o, s; auto 12].
    repeat split; auto. eapply CAN; eauto.
Qed.

(* what the merge is, kind by kind *)

Lemma split_tx_lemma : forall vers key, first_kind vers = Some KTx -> (2 <= length vers)%nat ->
  exists U, SS U /\
    (forall t, In t U <-> exists r ids, In r vers /\ ckind (rcont r) = Some KTx /\
                                       cpay (rcont r) = PTx ids /\ In t ids) /\
    handle_split vers key =
      if 1 <? nlen U then Some {| rkey := key; rcont := tx_content U; rpub := None |} else None.
Proof.
  intros vers key FK LEN. exists (tx_comp KTx vers).
  destruct (tx_comp_gen KTx vers [] ltac:(constructor)) as [A B]. split; [exact A|]. split.
  - intro t. unfold tx_comp. rewrite B. split.
    + intros [[]|(r & Hr & Ht)]. unfold tx_items in Ht.
      destruct (ckind (rcont r)) as [k|] eqn:K; [|contradiction].
      destruct (kind_eqb KTx k) eqn:E; [|contradiction]. apply kind_eqb_eq in E. subst k.
      destruct (cpay (rcont r)) as [l| | |] eqn:Pp; try contradiction. exists r, l. auto.
    + intros (r & ids & Hr & K & Pp & Ht). right. exists r. split; [exact Hr|].
      unfold tx_items. rewrite K, Pp. cbn. exact Ht.
  - rewrite handle_split_closed, FK.
    assert (L : 1 <? nlen vers = true). { apply N.ltb_lt. unfold nlen. lia. }
    rewrite L. unfold result_of. destruct (1 <? nlen (tx_comp KTx vers)); [reflexivity|].
    assert (R : flat_map (reg_items KTx) vers = []).
    { destruct (flat_map (reg_items KTx) vers) as [|g rest] eqn:E; [reflexivity|].
      assert (Hg : In g (flat_map (reg_items KTx) vers)) by (rewrite E; left; reflexivity).
      apply reg_items_in in Hg. destruct Hg as [Hg _]. discriminate. }
    assert (Pd : flat_map (pad_items KTx) vers = []).
    { destruct (flat_map (pad_items KTx) vers) as [|[c d] rest] eqn:E; [reflexivity|].
      assert (Hg : In (c, d) (flat_map (pad_items KTx) vers)) by (rewrite E; left; reflexivity).
      apply pad_items_in in Hg. destruct Hg as [Hg _]. discriminate. }
    rewrite R, Pd. reflexivity.
Qed.

Lemma tx_comp_nontx : forall k0 vers, k0 <> KTx -> tx_comp k0 vers = [].
Proof.
  intros k0 vers H. destruct (tx_comp_gen k0 vers [] ltac:(constructor)) as [_ B]. unfold tx_comp.
  destruct (fold_left _ vers []) as [|t rest] eqn:E; [reflexivity|]. exfalso.
  destruct (proj1 (B t) (or_introl eq_refl)) as [[]|(r & Hr & Ht)].
  unfold tx_items in Ht. destruct (ckind (rcont r)); [|contradiction].
  destruct (kind_eqb k0 k); [|contradiction]. destruct k0; try contradiction; try (apply H; reflexivity).
Qed.

Lemma split_reg_lemma : forall vers key, first_kind vers = Some KReg -> (2 <= length vers)%nat ->
  canonical vers -> ~ forked_registers vers ->
  match handle_split vers key with
  | None => forall r b ops salt, In r vers -> ckind (rcont r) = Some KReg -> cpay (rcont r) <> PReg b true ops salt
  | Some m =>
      exists b U salt,
        m = {| rkey := key; rcont := {| ckind := Some KReg; cpay := PReg b true U salt |}; rpub := None |} /\
        SS U /\
        (exists r ops, In r vers /\ ckind (rcont r) = Some KReg /\ cpay (rcont r) = PReg b true ops salt) /\
        (forall t, In t U <-> exists r b' ops s', In r vers /\ ckind (rcont r) = Some KReg /\
                                cpay (rcont r) = PReg b' true ops s' /\ In t ops)
  end.
Proof.
  intros vers key FK LEN CAN NF. rewrite handle_split_closed, FK.
  assert (L : 1 <? nlen vers = true). { apply N.ltb_lt. unfold nlen. lia. }
  rewrite L. unfold result_of. rewrite tx_comp_nontx by discriminate. cbn [nlen length N.of_nat N.ltb N.compare].
  destruct (flat_map (reg_items KReg) vers) as [|[[b o] s] rest] eqn:FR.
  - cbn. assert (Pd : flat_map (pad_items KReg) vers = []).
    { destruct (flat_map (pad_items KReg) vers) as [|[c d] rest] eqn:E; [reflexivity|].
      assert (Hg : In (c, d) (flat_map (pad_items KReg) vers)) by (rewrite E; left; reflexivity).
      apply pad_items_in in Hg. destruct Hg as [Hg _]. discriminate. }
    rewrite Pd. cbn. intros r b ops salt Hr K Pp.
    pose proof (reg_items_of vers r b ops salt Hr K Pp) as Hin. rewrite FR in Hin. contradiction.
  - assert (SAME : forall g, In g ((b, o, s) :: rest) -> fst (fst g) = b /\ snd g = s /\ SS (snd (fst g))).
    { intros g Hg. rewrite <- FR in Hg.
      assert (H0 : In (b, o, s) (flat_map (reg_items KReg) vers)) by (rewrite FR; left; reflexivity).
      destruct (reg_items_in _ _ _ H0) as (_ & r0 & A0 & B0 & C0). cbn in C0.
      destruct (reg_items_in _ _ _ Hg) as (_ & r & A & B & C).
      destruct (N.eq_dec (fst (fst g)) b) as [E1|E1]; [|exfalso; apply NF;
        exists r, r0, (fst (fst g)), (snd (fst g)), (snd g), b, o, s; auto 12].
      destruct (N.eq_dec (snd g) s) as [E2|E2]; [|exfalso; apply NF;
        exists r, r0, (fst (fst g)), (snd (fst g)), (snd g), b, o, s; auto 12].
      repeat split; auto. eapply CAN; eauto. }
    unfold reg_result. rewrite merge_regs_same by (intros g Hg; apply (SAME g Hg)).
    destruct (SAME (b, o, s) (or_introl eq_refl)) as (_ & _ & So). cbn in So.
    destruct (ops_union_spec ((b, o, s) :: rest) o So) as [A B].
    exists b, (ops_union ((b, o, s) :: rest) o), s. split; [reflexivity|]. split; [exact A|]. split.
    + assert (H0 : In (b, o, s) (flat_map (reg_items KReg) vers)) by (rewrite FR; left; reflexivity).
      destruct (reg_items_in _ _ _ H0) as (_ & r0 & A0 & B0 & C0). exists r0, o. auto.
    + intro t. rewrite B. split.
      * intros [Ht|(g & Hg & Ht)].
        -- assert (H0 : In (b, o, s) (flat_map (reg_items KReg) vers)) by (rewrite FR; left; reflexivity).
           destruct (reg_items_in _ _ _ H0) as (_ & r0 & A0 & B0 & C0). exists r0, b, o, s. auto.
        -- rewrite <- FR in Hg. destruct (reg_items_in _ _ _ Hg) as (_ & r & A1 & B1 & C1).
           exists r, (fst (fst g)), (snd (fst g)), (snd g). auto.
      * intros (r & b' & ops & s' & Hr & K & Pp & Ht). right. exists (b', ops, s'). split; [|exact Ht].
        rewrite <- FR. eapply reg_items_of; eauto.
Qed.

Lemma split_pad_lemma : forall vers key, first_kind vers = Some KPad -> (2 <= length vers)%nat ->
  match handle_split vers key with
  | None => forall r c d, In r vers -> ckind (rcont r) = Some KPad -> cpay (rcont r) <> PPad true c d
  | Some m =>
      exists c d,
        m = {| rkey := key; rcont := {| ckind := Some KPad; cpay := PPad true c d |}; rpub := None |} /\
        (exists r, In r vers /\ ckind (rcont r) = Some KPad /\ cpay (rcont r) = PPad true c d) /\
        (forall r c' d', In r vers -> ckind (rcont r) = Some KPad -> cpay (rcont r) = PPad true c' d' -> c' <= c)
  end.
Proof.
  intros vers key FK LEN. rewrite handle_split_closed, FK.
  assert (L : 1 <? nlen vers = true). { apply N.ltb_lt. unfold nlen. lia. }
  rewrite L. unfold result_of. rewrite tx_comp_nontx by discriminate. cbn [nlen length N.of_nat N.ltb N.compare].
  assert (R : flat_map (reg_items KPad) vers = []).
  { destruct (flat_map (reg_items KPad) vers) as [|g rest] eqn:E; [reflexivity|].
    assert (Hg : In g (flat_map (reg_items KPad) vers)) by (rewrite E; left; reflexivity).
    apply reg_items_in in Hg. destruct Hg as [Hg _]. discriminate. }
  rewrite R. cbn [reg_result]. pose proof (best_spec (flat_map (pad_items KPad) vers) None) as S.
  destruct (fold_left best (flat_map (pad_items KPad) vers) None) as [[c d]|].
  - destruct S as [[S1|S1] S2]; [discriminate|]. exists c, d. split; [reflexivity|]. split.
    + destruct (pad_items_in _ _ _ _ S1) as (_ & r & A & B & C). exists r. auto.
    + intros r c' d' Hr K Pp. apply (S2 c' d'). right. eapply pad_items_of; eauto.
  - destruct S as [_ S]. intros r c d Hr K Pp. pose proof (pad_items_of vers r c d Hr K Pp) as Hin.
    rewrite S in Hin. contradiction.
Qed.

(* ------------------------------------------------------------------------------------------ *)
(* F11: inside the known class the result depends on the order                                   *)

Definition mk (k : kind) (p : payload) : record :=
  {| rkey := 1; rcont := {| ckind := Some k; cpay := p |}; rpub := None |}.

Lemma merge_forked_register_refuted_lemma :
  exists vers vers' key, Permutation vers vers' /\ canonical vers /\ forked_registers vers /\
                         handle_split vers key <> handle_split vers' key.
Proof.
  exists [mk KReg (PReg 0 true [1] 0); mk KReg (PReg 1 true [2] 0)],
         [mk KReg (PReg 1 true [2] 0); mk KReg (PReg 0 true [1] 0)], 1.
  split; [apply perm_swap|]. split.
  - intros r b v ops salt [H|[H|[]]] Pp; subst r; cbn in Pp; inversion Pp; subst; repeat constructor.
  - split; [|vm_compute; discriminate].
    exists (mk KReg (PReg 0 true [1] 0)), (mk KReg (PReg 1 true [2] 0)), 0, [1], 0, 1, [2], 0.
    cbn. repeat split; auto. left. discriminate.
Qed.

Lemma merge_mixed_kinds_refuted_lemma :
  exists vers vers' key, Permutation vers vers' /\ canonical vers /\ mixed_kinds vers /\
                         handle_split vers key <> handle_split vers' key.
Proof.
  exists [mk KTx (PTx [1]); mk KReg (PReg 1 true [2] 0)],
         [mk KReg (PReg 1 true [2] 0); mk KTx (PTx [1])], 1.
  split; [apply perm_swap|]. split.
  - intros r b v ops salt [H|[H|[]]] Pp; subst r; cbn in Pp; inversion Pp; subst; repeat constructor.
  - split; [|vm_compute; discriminate].
    exists (mk KTx (PTx [1])), (mk KReg (PReg 1 true [2] 0)), KTx, KReg. cbn. repeat split; auto. discriminate.
Qed.

Lemma merge_scratchpad_tie_refuted_lemma :
  exists vers vers' key, Permutation vers vers' /\ canonical vers /\ scratchpad_tie vers /\
                         handle_split vers key <> handle_split vers' key.
Proof.
  exists [mk KPad (PPad true 4 1); mk KPad (PPad true 4 2)],
         [mk KPad (PPad true 4 2); mk KPad (PPad true 4 1)], 1.
  split; [apply perm_swap|]. split.
  - intros r b v ops salt [H|[H|[]]] Pp; subst r; cbn in Pp; discriminate.
  - split; [|vm_compute; discriminate].
    exists (mk KPad (PPad true 4 1)), (mk KPad (PPad true 4 2)), 4, 1, 2. cbn. repeat split; auto. discriminate.
Qed.

(* non-vacuity: three register versions with a common base merge to the union, in every order *)
Example merge_example :
  let vers := [mk KReg (PReg 0 true [1; 2] 0); mk KReg (PReg 0 true [3] 0); mk KReg (PReg 0 false [9] 1)] in
  canonical vers /\ ~ KnownOrderDependent vers /\
  handle_split vers 5 = Some {| rkey := 5; rcont := {| ckind := Some KReg; cpay := PReg 0 true [1; 2; 3] 0 |}; rpub := None |}.
Proof.
  cbn zeta. split; [|split; [|reflexivity]].
  - intros r b v ops salt [H|[H|[H|[]]]] Pp; subst r; cbn in Pp; inversion Pp; subst; repeat constructor; lia.
  - intros [M|[M|M]].
    + destruct M as (r1 & r2 & k1 & k2 & H1 & H2 & K1 & K2 & NE).
      destruct H1 as [H1|[H1|[H1|[]]]], H2 as [H2|[H2|[H2|[]]]]; subst; cbn in K1, K2; congruence.
    + destruct M as (r1 & r2 & b1 & o1 & s1 & b2 & o2 & s2 & H1 & H2 & _ & _ & P1 & P2 & NE).
      destruct H1 as [H1|[H1|[H1|[]]]], H2 as [H2|[H2|[H2|[]]]]; subst; cbn in P1, P2;
        inversion P1; inversion P2; subst; destruct NE as [NE|NE]; apply NE; reflexivity.
    + destruct M as (r1 & r2 & c & d1 & d2 & H1 & _ & K1 & _).
      destruct H1 as [H1|[H1|[H1|[]]]]; subst; cbn in K1; discriminate.
Qed.

Example split_example :
  let R1 := mk KChunk (POpaque 1) in let R2 := mk KChunk (POpaque 2) in let R3 := mk KChunk (POpaque 3) in
  let pre := [Cmd 1 {| cq := QMajority; ctarget := None; cisreg := false; cholders := [] |};
              Found 0 (Some 1) R1; Found 0 (Some 2) R2; Found 0 (Some 3) R3; Found 0 (Some 4) R1] in
  In (0, ESplit [(R1, [1; 4]); (R2, [2]); (R3, [3])]) (step_outs (final pre) (Finished 0)).
Proof. vm_compute. left. reflexivity. Qed.

(* ------------------------------------------------------------------------------------------ *)
(* get_record_from_network: Ok is an Ok of some attempt, or the merge of some attempt's split     *)

Lemma api_attempt_ok : forall key o order r, api_attempt key o order = Some (AOk r) ->
  o = OOk r \/ o = OMerged r \/ (exists vs, o = ESplit vs /\ handle_split order key = Some r).
Proof.
  intros key o order r H. destruct o; cbn in H; try discriminate.
  - inversion H. auto.
  - inversion H. auto.
  - destruct (handle_split order key) eqn:E; [|discriminate]. inversion H; subst. right. right. eauto.
Qed.

Lemma api_loop_ok : forall key atts n r, api_loop key n atts = Some (AOk r) ->
  exists o order, In (o, order) atts /\
    (o = OOk r \/ o = OMerged r \/ (exists vs, o = ESplit vs /\ handle_split order key = Some r)).
Proof.
  induction atts as [|[o order] atts IH]; intros n r H; cbn [api_loop] in H; [discriminate|].
  destruct (api_attempt key o order) as [res|] eqn:A.
  - inversion H; subst. exists o, order. split; [left; reflexivity|]. apply api_attempt_ok. exact A.
  - destruct n as [|[|n']]; try discriminate.
    destruct (IH _ _ H) as (o' & order' & Hin & Hr). exists o', order'. split; [right; exact Hin | exact Hr].
Qed.

(* ------------------------------------------------------------------------------------------ *)
(* known class: the quorum is reached on a split in which some version is not a transaction list; *)
(* that version -- possibly the one holding the quorum -- is left out of the merge                *)

Definition KnownMixedMerge (vers : list version) : Prop :=
  exists v, In v vers /\ get_transactions (fst v) = None.

Lemma merged_covers_all_lemma : forall pre e c r, In (c, OMerged r) (step_outs (final pre) e) ->
  exists q po r1 x U,
    e = Found q po r1 /\ find_query q (pending (final pre)) = Some x /\ rcont r = tx_content U /\
    (~ KnownMixedMerge (fst (insert_version (qvers x) r1 (peer_of po))) ->
     forall v, In v (fst (insert_version (qvers x) r1 (peer_of po))) ->
       exists l, get_transactions (fst v) = Some l /\ forall t, In t l -> In t U).
Proof.
  intros pre e c r H.
  destruct (merged_lemma _ _ _ _ H) as (q & po & r1 & x & vers' & U & E & F & Hc & EV & LEN & ER & S & NE & SP).
  exists q, po, r1, x, U. split; [exact E|]. split; [exact F|]. split; [subst r; reflexivity|].
  rewrite <- EV. intros NK v Hv. destruct (get_transactions (fst v)) as [l|] eqn:G.
  - exists l. split; [reflexivity|]. intros t Ht. apply SP. exists v, l. auto.
  - exfalso. apply NK. exists v. auto.
Qed.

Definition mm_tx : record := {| rkey := 5; rcont := tx_content [2]; rpub := None |}.
Definition mm_pad : record := {| rkey := 5; rcont := {| ckind := Some KPad; cpay := PPad true 1 1 |}; rpub := None |}.
Definition mm_pre : list event :=
  [Cmd 5 {| cq := QN 3; ctarget := None; cisreg := false; cholders := [] |};
   Found 0 (Some 1) mm_tx; Found 0 (Some 2) mm_pad; Found 0 (Some 8) mm_pad].

Lemma merged_drops_quorum_version_refuted_lemma :
  exists pre q po r1 x c r v ps,
    find_query q (pending (final pre)) = Some x /\
    In (c, OMerged r) (step_outs (final pre) (Found q po r1)) /\
    In (v, ps) (fst (insert_version (qvers x) r1 (peer_of po))) /\
    quorum_value (cq (qcfg x)) <= nlen ps /\ get_transactions v = None /\
    r = mm_tx.
Proof.
  exists mm_pre, 0, (Some 5), mm_pad.
  eexists. exists 0, mm_tx, mm_pad, [2; 8; 5].
  split; [vm_compute; reflexivity|]. split; [vm_compute; left; reflexivity|].
  split; [vm_compute; right; left; reflexivity|]. split; [vm_compute; discriminate|]. split; reflexivity.
Qed.

(* ------------------------------------------------------------------------------------------ *)
(* completeness of SplitRecord: every reply the query received is represented                   *)

(* replies refer to queries that have been issued (kad only reports progress of its own queries) *)
Definition wf_trace (evs : list event) : Prop :=
  forall pre q po r post, evs = pre ++ Found q po r :: post -> q < next_qid (final pre).

Lemma wf_trace_prefix : forall evs e, wf_trace (evs ++ [e]) -> wf_trace evs.
Proof.
  intros evs e W pre q po r post E. apply (W pre q po r (post ++ [e])). subst evs.
  rewrite <- app_assoc. reflexivity.
Qed.

Lemma next_qid_step : forall s e, next_qid s <= next_qid (step_state s e).
Proof.
  intros s e. unfold step_state. destruct e as [key c|q p r|q|q|q|q|c]; cbn [step fst].
  - unfold handle_cmd. destruct (join_query _ _ _); cbn; lia.
  - unfold accumulate. destruct (find_query _ _); [|cbn; lia]. destruct (insert_version _ _ _).
    destruct (_ <=? _); [destruct (deliver _ _ _)|]; cbn; lia.
  - unfold finished. destruct (find_query _ _); [|cbn; lia]. destruct (deliver _ _ _); cbn; lia.
  - unfold err_not_found. destruct (find_query _ _); [|cbn; lia]. destruct (deliver _ _ _); cbn; lia.
  - unfold err_not_found. destruct (find_query _ _); [|cbn; lia]. destruct (deliver _ _ _); cbn; lia.
  - unfold err_timeout. destruct (find_query _ _); [|cbn; lia]. destruct (deliver _ _ _); cbn; lia.
  - cbn. lia.
Qed.

Lemma next_qid_mono : forall pre post, next_qid (final pre) <= next_qid (final (pre ++ post)).
Proof.
  intros pre post. induction post as [|e post IH] using rev_ind.
  - rewrite app_nil_r. lia.
  - rewrite app_assoc, final_snoc. pose proof (next_qid_step (final (pre ++ post)) e). lia.
Qed.

(* a query that survives a reply addressed to it is the updated one *)
Lemma find_decomp2 : forall s q x, sinv s -> find_query q (pending s) = Some x ->
  exists l1 l2, pending s = l1 ++ x :: l2 /\ qid x = q /\
    remove_query q (pending s) = l1 ++ l2 /\
    (forall x', qid x' = q -> replace_query x' (pending s) = l1 ++ x' :: l2) /\
    (forall y, In y (l1 ++ l2) -> qid y <> q).
Proof.
  intros s q x I F. destruct (find_query_split _ _ _ F) as (l1 & l2 & A & B & C).
  assert (C2 : forall y, In y l2 -> qid y <> q).
  { intros y Hy Ey. pose proof (si_qids s I) as ND. rewrite A, map_app in ND. cbn in ND.
    apply NoDup_remove_2 in ND. apply ND. apply in_or_app. right. rewrite B, <- Ey. apply in_map. exact Hy. }
  exists l1, l2. split; [exact A|]. split; [exact B|]. split; [|split].
  - rewrite A. apply remove_query_split; auto.
  - intros x' E. rewrite A. apply replace_query_split; [congruence|]. intros y Hy. rewrite E. apply C. exact Hy.
  - intros y Hy. apply in_app_or in Hy. destruct Hy; [apply C | apply C2]; assumption.
Qed.

Lemma found_survivor : forall s q p r x', sinv s -> In x' (pending (step_state s (Found q p r))) ->
  qid x' = q ->
  exists x, find_query q (pending s) = Some x /\ qvers x' = fst (insert_version (qvers x) r (peer_of p)).
Proof.
  intros s q p r x' I H E. unfold step_state in H. cbn [step fst] in H. unfold accumulate in H.
  destruct (find_query q (pending s)) as [x|] eqn:F.
  2:{ exfalso. apply (find_query_none _ _ F x' H). exact E. }
  destruct (find_decomp2 _ _ _ I F) as (l1 & l2 & A & B & C & D & NQ).
  exists x. split; [reflexivity|].
  destruct (insert_version (qvers x) r (peer_of p)) as [vers' n] eqn:IV.
  destruct (quorum_value (cq (qcfg x)) <=? n).
  - destruct (deliver _ _ _) as [o rt]. cbn in H. rewrite C in H. exfalso. apply (NQ x' H). exact E.
  - cbn in H. rewrite D in H by (cbn; exact B). apply in_app_or in H. destruct H as [H|[H|H]].
    + exfalso. apply (NQ x'); [apply in_or_app; left; exact H | exact E].
    + subst x'. reflexivity.
    + exfalso. apply (NQ x'); [apply in_or_app; right; exact H | exact E].
Qed.

(* every reply addressed to a pending query is recorded in its version map *)
Definition cinv (evs : list event) : Prop :=
  forall x po r, In x (pending (final evs)) -> In (Found (qid x) po r) evs ->
    exists r0 ps, In (r0, ps) (qvers x) /\ rcont r0 = rcont r /\ In (peer_of po) ps.

Lemma cinv_all : forall evs, wf_trace evs -> cinv evs.
Proof.
  intro evs. induction evs as [|e evs IH] using rev_ind; intro W.
  - intros x po r [].
  - specialize (IH (wf_trace_prefix _ _ W)). intros x' po r Hx Hev. rewrite final_snoc in Hx.
    pose proof (reach_sinv _ _ _ (reach_run evs)) as I.
    apply in_app_or in Hev.
    destruct e as [key cf|q p0 r0|q|q|q|q|c0].
    1:{ destruct Hev as [Hev|[Hev|[]]]; [|discriminate].
        unfold step_state in Hx. cbn in Hx.
        destruct (cmd_pending _ _ _ _ I Hx) as [[E _]|(x & A & (B1 & B2 & B3) & C & D)].
        - exfalso. subst x'. cbn in Hev. remember (next_qid (final evs)) as nq eqn:Enq.
          apply in_split in Hev. destruct Hev as (pre & post & Epre).
          assert (L : nq < next_qid (final pre)).
          { apply (W pre nq po r (post ++ [Cmd key cf])). rewrite Epre, <- app_assoc. reflexivity. }
          pose proof (next_qid_mono pre (Found nq po r :: post)) as M. rewrite <- Epre in M. lia.
        - rewrite C. rewrite B1 in Hev. apply (IH x po r A Hev). }
    2-6: destruct Hev as [Hev|[Hev|[]]]; [|discriminate];
         noncmd I Hx x A B1 B2 B3 C D; rewrite B1 in Hev;
         destruct (IH x po r A Hev) as (r1 & ps1 & V1 & V2 & V3);
         destruct D as [D|(q9 & p9 & r9 & D1 & _)]; [|discriminate D1];
         rewrite D; exists r1, ps1; auto.
    destruct Hev as [Hev|[Hev|[]]].
    + noncmd I Hx x A B1 B2 B3 C D. rewrite B1 in Hev.
      destruct (IH x po r A Hev) as (r1 & ps1 & V1 & V2 & V3).
      destruct D as [D|(q9 & p9 & r9 & D1 & D2 & D3 & D4 & D5)]; [rewrite D; exists r1, ps1; auto|].
      rewrite D4. destruct (insert_version_old_kept (qvers x) r9 (peer_of p9) r1 ps1 V1) as (ps1' & K1 & K2).
      exists r1, ps1'. auto.
    + inversion Hev as [[E1 E2 E3]]. subst po r.
      destruct (found_survivor _ _ _ _ _ I Hx (eq_sym E1)) as (x & F & EV).
      rewrite EV. destruct (insert_version (qvers x) r0 (peer_of p0)) as [vers' n] eqn:IV.
      destruct (insert_version_hit _ _ _ _ _ IV) as (r1 & ps1 & H1 & H2 & H3 & _).
      exists r1, ps1. auto.
Qed.

Lemma split_inversion : forall pre e c vs, In (c, ESplit vs) (step_outs (final pre) e) ->
  exists q x, find_query q (pending (final pre)) = Some x /\
    ((e = Finished q /\ vs = qvers x) \/
     (exists po r, e = Found q po r /\ vs = fst (insert_version (qvers x) r (peer_of po)))).
Proof.
  intros pre e c vs H. destruct e as [key cf|q p r1|q|q|q|q|c0].
  - contradiction.
  - unfold step_outs in H. cbn in H. unfold accumulate in H.
    destruct (find_query q (pending (final pre))) as [x|] eqn:F; [|contradiction].
    exists q, x. split; [exact F|]. right. exists p, r1. split; [reflexivity|].
    destruct (insert_version (qvers x) r1 (peer_of p)) as [vers' n] eqn:IV.
    destruct (quorum_value (cq (qcfg x)) <=? n) eqn:Q; [|contradiction].
    match type of H with context [deliver ?d ?cs ?res] =>
      pose proof (deliver_in d cs res c (ESplit vs)) as DI; destruct (deliver d cs res) as [oo rt] end.
    cbn in H. destruct (DI H) as (Hc & _ & [E|E]); [|discriminate].
    destruct (nlen vers' =? 1).
    + unfold checked in E. destruct (does_target_match (qcfg x) r1); discriminate.
    + destruct (collect_txs vers'); [|discriminate]. inversion E. reflexivity.
  - unfold step_outs in H. cbn in H. unfold finished in H.
    destruct (find_query q (pending (final pre))) as [x|] eqn:F; [|contradiction].
    exists q, x. split; [exact F|]. left. split; [reflexivity|].
    match type of H with context [deliver ?d ?cs ?res] =>
      pose proof (deliver_in d cs res c (ESplit vs)) as DI; destruct (deliver d cs res) as [oo rt] end.
    cbn in H. destruct (DI H) as (Hc & _ & [E|E]); [|discriminate].
    destruct (qvers x) as [|[r ps] [|v2 rest]] eqn:QV; try discriminate.
    + destruct (_ <=? _); discriminate.
    + inversion E. reflexivity.
  - apply (fun H => not_found_outs _ q c (ESplit vs) (or_introl H)) in H. destruct H; discriminate.
  - apply (fun H => not_found_outs _ q c (ESplit vs) (or_intror H)) in H. destruct H; discriminate.
  - apply timeout_outs in H. destruct H; discriminate.
  - contradiction.
Qed.

(* the full set of versions: every reply the query received appears in the SplitRecord error, with
   its sender *)
Lemma split_complete_lemma : forall pre e c vs, wf_trace (pre ++ [e]) ->
  In (c, ESplit vs) (step_outs (final pre) e) ->
  exists q, (e = Finished q \/ exists po r, e = Found q po r) /\
    forall po r, In (Found q po r) (pre ++ [e]) ->
      exists r0 ps, In (r0, ps) vs /\ rcont r0 = rcont r /\ In (peer_of po) ps.
Proof.
  intros pre e c vs W H. destruct (split_inversion _ _ _ _ H) as (q & x & F & [[E1 E2]|(p1 & r1 & E1 & E2)]).
  - exists q. split; [left; exact E1|]. intros po r Hin. subst e vs.
    apply in_app_or in Hin. destruct Hin as [Hin|[Hin|[]]]; [|discriminate].
    destruct (find_query_split _ _ _ F) as (l1 & l2 & A & B & _).
    assert (Hx : In x (pending (final pre))) by (rewrite A; apply in_or_app; right; left; reflexivity).
    rewrite <- B in Hin. apply (cinv_all pre (wf_trace_prefix _ _ W) x po r Hx Hin).
  - exists q. split; [right; exists p1, r1; exact E1|]. intros po r Hin. subst e vs.
    destruct (find_query_split _ _ _ F) as (l1 & l2 & A & B & _).
    assert (Hx : In x (pending (final pre))) by (rewrite A; apply in_or_app; right; left; reflexivity).
    apply in_app_or in Hin. destruct Hin as [Hin|[Hin|[]]].
    + rewrite <- B in Hin.
      destruct (cinv_all pre (wf_trace_prefix _ _ W) x po r Hx Hin) as (r0 & ps & V1 & V2 & V3).
      destruct (insert_version_old_kept (qvers x) r1 (peer_of p1) r0 ps V1) as (ps' & K1 & K2).
      exists r0, ps'. auto.
    + inversion Hin; subst po r.
      destruct (insert_version (qvers x) r1 (peer_of p1)) as [vers' n] eqn:IV.
      destruct (insert_version_hit _ _ _ _ _ IV) as (r0 & ps & H1 & H2 & H3 & _).
      exists r0, ps. auto.
Qed.

Example wf_trace_example :
  wf_trace [Cmd 1 {| cq := QMajority; ctarget := None; cisreg := false; cholders := [] |};
            Found 0 (Some 1) (mk KChunk (POpaque 1)); Found 0 (Some 2) (mk KChunk (POpaque 2)); Finished 0].
Proof.
  intros pre q po r post E.
  destruct pre as [|e0 pre]; [discriminate|]. injection E as E0 E.
  destruct pre as [|e1 pre]; [injection E as E1 E; inversion E1; subst; vm_compute; reflexivity|]. injection E as E1 E.
  destruct pre as [|e2 pre]; [injection E as E2 E; inversion E2; subst; vm_compute; reflexivity|]. injection E as E2 E.
  destruct pre as [|e3 pre]; [discriminate|]. injection E as E3 E. destruct pre; discriminate.
Qed.

(* ------------------------------------------------------------------------------------------ *)
(* further non-vacuity examples                                                                *)

Definition ex_cfg (q : quorum) : cfg := {| cq := q; ctarget := None; cisreg := false; cholders := [] |}.
Definition ex_tx (l : list N) : record := {| rkey := 3; rcont := tx_content l; rpub := None |}.

(* the quorum is reached on a split of transaction versions: Ok(sorted union) *)
Example merged_example :
  In (0, OMerged (ex_tx [1; 2; 3]))
     (step_outs (final [Cmd 3 (ex_cfg (QN 2)); Found 0 (Some 1) (ex_tx [2; 1]); Found 0 (Some 2) (ex_tx [3])])
                (Found 0 None (ex_tx [3]))) /\
  ~ KnownMixedMerge (fst (insert_version [(ex_tx [2; 1], [1]); (ex_tx [3], [2])] (ex_tx [3]) 0)).
Proof.
  split; [vm_compute; left; reflexivity|]. intros (v & Hv & G). vm_compute in Hv.
  destruct Hv as [Hv|[Hv|[]]]; subst v; vm_compute in G; discriminate.
Qed.

(* three callers on one query, the middle one gave up: the first is answered, the third observes
   its sender dropped; a fourth caller on another key is still waiting *)
Example one_outcome_example :
  let evs := [Cmd 4 (ex_cfg QOne); Cmd 4 (ex_cfg QAll); Cmd 4 (ex_cfg QOne); Cmd 9 (ex_cfg QOne); Drop 1;
              Found 0 (Some 1) (ex_tx [1])] in
  outs evs = [(0, OOk (ex_tx [1])); (2, EClosed)] /\
  waiting (final evs) 3 = true /\ waiting (final evs) 0 = false /\ next_cid (final evs) = 4 /\
  dead (final evs) = [1].
Proof. vm_compute. repeat split; reflexivity. Qed.

(* a pending query below its quorum: two versions, one and two responders, quorum three *)
Example below_quorum_example :
  let evs := [Cmd 3 (ex_cfg QMajority); Found 0 (Some 1) (ex_tx [1]); Found 0 (Some 2) (ex_tx [2]);
              Found 0 (Some 3) (ex_tx [2]); Found 0 (Some 3) (ex_tx [2])] in
  exists x, In x (pending (final evs)) /\ qvers x = [(ex_tx [1], [1]); (ex_tx [2], [2; 3])].
Proof. eexists. split; [vm_compute; left; reflexivity | reflexivity]. Qed.

Example split_kind_examples :
  first_kind [mk KTx (PTx [1]); mk KTx (PTx [2; 3])] = Some KTx /\
  handle_split [mk KTx (PTx [1]); mk KTx (PTx [2; 3])] 8 = Some {| rkey := 8; rcont := tx_content [1; 2; 3]; rpub := None |} /\
  first_kind [mk KPad (PPad true 3 1); mk KPad (PPad false 9 2); mk KPad (PPad true 7 3)] = Some KPad /\
  handle_split [mk KPad (PPad true 3 1); mk KPad (PPad false 9 2); mk KPad (PPad true 7 3)] 8
    = Some {| rkey := 8; rcont := {| ckind := Some KPad; cpay := PPad true 7 3 |}; rpub := None |} /\
  first_kind [mk KReg (PReg 1 true [1] 0); mk KReg (PReg 1 true [2] 0)] = Some KReg /\
  ~ forked_registers [mk KReg (PReg 1 true [1] 0); mk KReg (PReg 1 true [2] 0)].
Proof.
  repeat split; try reflexivity.
  intros (r1 & r2 & b1 & o1 & s1 & b2 & o2 & s2 & H1 & H2 & _ & _ & P1 & P2 & NE).
  destruct H1 as [H1|[H1|[]]], H2 as [H2|[H2|[]]]; subst; cbn in P1, P2;
    inversion P1; inversion P2; subst; destruct NE as [NE|NE]; apply NE; reflexivity.
Qed.

(* get_record_from_network with one retry: first attempt times out, the second is a split of
   registers which is merged *)
Example api_example :
  api_loop 3 2 [(ETimeout, []);
                (ESplit [(mk KReg (PReg 0 true [1] 0), [1]); (mk KReg (PReg 0 true [2] 0), [2])],
                 [mk KReg (PReg 0 true [2] 0); mk KReg (PReg 0 true [1] 0)])]
  = Some (AOk {| rkey := 3; rcont := {| ckind := Some KReg; cpay := PReg 0 true [1; 2] 0 |}; rpub := None |}).
Proof. reflexivity. Qed.

(* ------------------------------------------------------------------------------------------ *)
(* the retry loop of get_record_from_network on top of the query model: every attempt is a fresh  *)
(* caller (hence a query of its own or a joined one); the loop's result is the result of ONE     *)
(* attempt -- nothing is accumulated across attempts                                           *)

Lemma api_loop_err : forall key atts n e, api_loop key n atts = Some (AErr e) ->
  exists order, In (e, order) atts /\ api_attempt key e order = None.
Proof.
  induction atts as [|[o order] atts IH]; intros n e H; cbn [api_loop] in H; [discriminate|].
  destruct (api_attempt key o order) as [res|] eqn:A.
  - inversion H; subst. destruct o; cbn in A; try discriminate;
      try (destruct (handle_split order key); discriminate).
  - destruct n as [|[|n']].
    + inversion H; subst. exists order. split; [left; reflexivity | exact A].
    + inversion H; subst. exists order. split; [left; reflexivity | exact A].
    + destruct (IH _ _ H) as (order' & Hin & A'). exists order'. split; [right; exact Hin | exact A'].
Qed.

(* the attempts the loop looks at are a prefix: after a final result nothing later matters *)
Lemma api_loop_stable : forall key atts n res more, api_loop key n atts = Some res ->
  api_loop key n (atts ++ more) = Some res.
Proof.
  induction atts as [|[o order] atts IH]; intros n res more H; cbn [api_loop] in H; [discriminate|].
  cbn [app api_loop]. destruct (api_attempt key o order); [exact H|].
  destruct n as [|[|n']]; try exact H. apply IH. exact H.
Qed.

Lemma outs_in_split : forall evs x, In x (outs evs) ->
  exists pre e post, evs = pre ++ e :: post /\ In x (step_outs (final pre) e).
Proof.
  induction evs as [|e evs IH] using rev_ind; intros x H.
  - contradiction.
  - rewrite outs_snoc in H. apply in_app_or in H. destruct H as [H|H].
    + destruct (IH x H) as (pre & e0 & post & E & Hin). exists pre, e0, (post ++ [e]).
      split; [subst evs; rewrite <- app_assoc; reflexivity | exact Hin].
    + exists evs, e, []. auto.
Qed.

Lemma outcomes_of_in : forall evs c o, In o (outcomes_of evs c) -> In (c, o) (outs evs).
Proof.
  intros evs c o H. unfold outcomes_of in H. apply in_map_iff in H. destruct H as ([c' o'] & E & Hin).
  apply filter_In in Hin. destruct Hin as [Hin Ec]. cbn in *. apply N.eqb_eq in Ec. subst. exact Hin.
Qed.

(* `cids` = the callers created by the successive attempts of one get_record_from_network call;
   `orders` = the iteration orders of the split maps.  Ok(r) is
   - the Ok of ONE attempt: a single reply event that completed the quorum of that attempt's query,
     with quorum-many DISTINCT peers having returned r's content to THAT query (a peer answering once
     in every attempt is one peer in each of them), or
   - a merge: of one attempt's split at quorum time, or of one attempt's SplitRecord versions *)
Lemma api_ok_from_single_attempt_lemma : forall evs key n cids orders r,
  api_loop key n (combine (flat_map (outcomes_of evs) cids) orders) = Some (AOk r) ->
  (exists c pre e post q po x ps,
     In c cids /\ evs = pre ++ e :: post /\ e = Found q po r /\
     find_query q (pending (final pre)) = Some x /\ In c (qcallers x) /\
     NoDup ps /\ quorum_value (cq (qcfg x)) <= nlen ps /\
     (forall p, In p ps -> replied (pre ++ [e]) q p (rcont r)) /\
     does_target_match (qcfg x) r = true) \/
  (exists c o, In c cids /\ In (c, o) (outs evs) /\
     (o = OMerged r \/ exists vs order, o = ESplit vs /\ handle_split order key = Some r)).
Proof.
  intros evs key n cids orders r H.
  destruct (api_loop_ok _ _ _ _ H) as (o & order & Hin & Ho).
  apply in_combine_l in Hin. apply in_flat_map in Hin. destruct Hin as (c & Hc & Hoc).
  apply outcomes_of_in in Hoc.
  destruct Ho as [Ho|[Ho|(vs & Ho & Hs)]]; subst o.
  - left. destruct (outs_in_split _ _ Hoc) as (pre & e & post & E & Hstep).
    destruct (ok_under_query_cfg_lemma _ _ _ _ Hstep) as (q & po & x & ps & E1 & F & Hcx & ND & Q & R & T).
    exists c, pre, e, post, q, po, x, ps. auto 12.
  - right. exists c, (OMerged r). auto.
  - right. exists c, (ESplit vs). split; [exact Hc|]. split; [exact Hoc|]. right. exists vs, order. auto.
Qed.

(* an error is the error of the last attempt made, unchanged *)
Lemma api_err_is_last_attempt_lemma : forall evs key n cids orders e,
  api_loop key n (combine (flat_map (outcomes_of evs) cids) orders) = Some (AErr e) ->
  exists c, In c cids /\ In (c, e) (outs evs).
Proof.
  intros evs key n cids orders e H. destruct (api_loop_err _ _ _ _ H) as (order & Hin & _).
  apply in_combine_l in Hin. apply in_flat_map in Hin. destruct Hin as (c & Hc & Hoc).
  exists c. split; [exact Hc | apply outcomes_of_in; exact Hoc].
Qed.

(* non-vacuity, and the seeded scenario: Quorum::N(2), three attempts, the same single peer answers
   in each: NotEnoughCopies (1/2) -- never Ok *)
Example retry_same_peer_example :
  let c := {| cq := QN 2; ctarget := None; cisreg := false; cholders := [] |} in
  let r := mk KChunk (POpaque 1) in
  let evs := [Cmd 1 c; Found 0 (Some 1) r; Finished 0; Cmd 1 c; Found 1 (Some 1) r; Finished 1;
              Cmd 1 c; Found 2 (Some 1) r; Finished 2] in
  api_loop 1 3 (combine (flat_map (outcomes_of evs) [0; 1; 2]) [[]; []; []]) = Some (AErr (ENotEnough r 2 1)).
Proof. reflexivity. Qed.

(* ... while two different peers within one attempt do succeed (second attempt) *)
Example retry_ok_example :
  let c := {| cq := QN 2; ctarget := None; cisreg := false; cholders := [] |} in
  let r := mk KChunk (POpaque 1) in
  let evs := [Cmd 1 c; Found 0 (Some 1) r; Finished 0; Cmd 1 c; Found 1 (Some 1) r; Found 1 (Some 2) r] in
  api_loop 1 3 (combine (flat_map (outcomes_of evs) [0; 1]) [[]; []]) = Some (AOk r).
Proof. reflexivity. Qed.

(* ------------------------------------------------------------------------------------------ *)
(* the version map has no size cap: whatever the number of distinct contents returned to a query, *)
(* the SplitRecord error carries exactly those contents                                        *)

Lemma split_carries_every_version_lemma : forall pre e c vs, wf_trace (pre ++ [e]) ->
  In (c, ESplit vs) (step_outs (final pre) e) ->
  exists q, (e = Finished q \/ exists po r, e = Found q po r) /\
    NoDup (map vcont vs) /\
    forall ct, In ct (map vcont vs) <-> exists po r, In (Found q po r) (pre ++ [e]) /\ rcont r = ct.
Proof.
  intros pre e c vs W H.
  destruct (split_lemma _ _ _ _ H) as (q1 & E1 & _ & ND & SOUND).
  destruct (split_complete_lemma _ _ _ _ W H) as (q2 & E2 & COMPL).
  assert (EQ : q1 = q2).
  { destruct E1 as [E1|(po1 & r1 & E1)], E2 as [E2|(po2 & r2 & E2)]; subst e; try discriminate; inversion E2; reflexivity. }
  subst q2. exists q1. split; [exact E1|]. split; [exact ND|]. intro ct. split.
  - intro Hin. apply in_map_iff in Hin. destruct Hin as ([r0 ps] & Ect & Hv). unfold vcont in Ect. cbn in Ect.
    destruct (SOUND r0 ps Hv) as (_ & NE & REP). destruct ps as [|p ps]; [contradiction|].
    destruct (REP p (or_introl eq_refl)) as (po & r & A & _ & B). exists po, r. split; [exact A | congruence].
  - intros (po & r & Hin & Ect). destruct (COMPL po r Hin) as (r0 & ps & Hv & Hc & _).
    apply in_map_iff. exists (r0, ps). split; [unfold vcont; cbn; congruence | exact Hv].
Qed.

(* seven holders, seven versions (each has seen an op the others have not): all seven come back *)
Example seven_versions_example :
  let c := {| cq := QMajority; ctarget := None; cisreg := false; cholders := [] |} in
  let v i := mk KReg (PReg 0 true [i] 0) in
  let pre := [Cmd 1 c; Found 0 (Some 1) (v 1); Found 0 (Some 2) (v 2); Found 0 (Some 3) (v 3);
              Found 0 (Some 4) (v 4); Found 0 (Some 5) (v 5); Found 0 (Some 6) (v 6); Found 0 (Some 7) (v 7)] in
  In (0, ESplit [(v 1, [1]); (v 2, [2]); (v 3, [3]); (v 4, [4]); (v 5, [5]); (v 6, [6]); (v 7, [7])])
     (step_outs (final pre) (Finished 0)) /\
  handle_split [v 7; v 3; v 1; v 6; v 2; v 5; v 4] 1 = Some (mk KReg (PReg 0 true [1; 2; 3; 4; 5; 6; 7] 0)).
Proof. split; [vm_compute; left; reflexivity | reflexivity]. Qed.
