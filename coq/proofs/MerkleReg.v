(* MerkleReg.apply is order independent: the state after delivering a set of nodes, in any order and
   with any duplication, is determined by the set -- dag = the least set closed under "all children
   are in the dag", orphans = the rest, roots = dag nodes that are nobody's child. *)
From Coq Require Import List NArith Bool Lia Arith.
From V Require Import model.MerkleReg proofs.MerkleRegSorted.
Import ListNotations.
Open Scope N_scope.

Notation NL := N_cmp_laws.
Notation esorted := (ksorted (@fst N node) N.compare).
Notation nsorted := (ksorted (fun x : N => x) N.compare).

Lemma ehas_iff k m : ehas k m = true <-> exists n, In (k, n) m.
Proof.
  unfold ehas. rewrite (khas_iff _ _ NL). split.
  - intros ([k' n] & Hi & E). cbn in E. subst. eauto.
  - intros (n & Hi). exists (k, n). auto.
Qed.

Lemma ehas_false k m : ehas k m = false <-> forall n, ~ In (k, n) m.
Proof.
  split.
  - intros Hf n Hi. assert (ehas k m = true) by (apply ehas_iff; eauto). congruence.
  - intros Hn. destruct (ehas k m) eqn:E; [|reflexivity]. apply ehas_iff in E as (n & Hi).
    exfalso. eapply Hn, Hi.
Qed.

Lemma nhas_iff k l : nhas k l = true <-> In k l.
Proof.
  unfold nhas. rewrite (khas_iff _ _ NL). split.
  - intros (y & Hi & E). subst. exact Hi.
  - intros Hi. exists k. auto.
Qed.

Lemma all_seen_iff d cs : all_seen d cs = true <-> forall c, In c cs -> ehas c d = true.
Proof. unfold all_seen. apply forallb_forall. Qed.

Lemma all_seen_mono d d' cs :
  (forall k, ehas k d = true -> ehas k d' = true) -> all_seen d cs = true -> all_seen d' cs = true.
Proof. rewrite !all_seen_iff. auto. Qed.

(* keys whose whole ancestry is present *)
Inductive grounded (d : list entry) : N -> Prop :=
| g_intro k n : In (k, n) d -> (forall c, In c (children n) -> grounded d c) -> grounded d k.

Lemma grounded_mono d d' k : (forall e, In e d -> In e d') -> grounded d k -> grounded d' k.
Proof. intros Hsub. induction 1 as [k n Hi _ IH]. econstructor; eauto. Qed.

Section WithH.
  Variable H : node -> N.

  Definition entry_of (s : mreg) (e : entry) : Prop := In e (dag s) \/ In e (orphans s).
  Definition has_key (s : mreg) (k : N) : bool := ehas k (dag s) || ehas k (orphans s).

  Record Inv (s : mreg) : Prop := {
    i_dag_sorted : esorted (dag s);
    i_orph_sorted : esorted (orphans s);
    i_roots_sorted : nsorted (roots s);
    i_dag_key : forall k n, In (k, n) (dag s) -> k = H n;
    i_orph_key : forall k n, In (k, n) (orphans s) -> k = H n;
    i_disj : forall k, ehas k (dag s) = true -> ehas k (orphans s) = false;
    i_closed : forall k n, In (k, n) (dag s) -> all_seen (dag s) (children n) = true;
    i_noready : forall k n, In (k, n) (orphans s) -> all_seen (dag s) (children n) = false;
    i_roots : forall k, In k (roots s) <->
                (ehas k (dag s) = true /\ forall k' n', In (k', n') (dag s) -> ~ In k (children n'));
    i_ground : forall k n, In (k, n) (dag s) -> grounded (dag s) k }.

  Lemma Inv_empty : Inv mr_empty.
  Proof.
    split; cbn.
    - constructor.
    - constructor.
    - constructor.
    - intros k n [].
    - intros k n [].
    - intros k _. reflexivity.
    - intros k n [].
    - intros k n [].
    - intros k. split; [intros [] | intros [E _]; discriminate].
    - intros k n [].
  Qed.

  (* what one step does to a state in which the node is new and all its children are in the dag *)
  Definition step_post (s : mreg) (n : node) (s' : mreg) : Prop :=
    Inv s' /\
    (forall e, entry_of s' e <-> entry_of s e \/ e = (H n, n)) /\
    (forall e, In e (dag s) -> In e (dag s')) /\
    (length (orphans s') <= length (orphans s))%nat.

  Lemma dag_sub_has s s' : (forall e, In e (dag s) -> In e (dag s')) ->
    forall k, ehas k (dag s) = true -> ehas k (dag s') = true.
  Proof. intros Hs k Hk. apply ehas_iff in Hk as (n & Hi). apply ehas_iff. eauto. Qed.

  Lemma filter_length_le {A} (p : A -> bool) l : (length (filter p l) <= length l)%nat.
  Proof. induction l as [|x l IH]; cbn; [lia|]. destruct (p x); cbn; lia. Qed.

  Lemma filter_split_length {A} (p : A -> bool) l :
    (length (filter p l) + length (filter (fun x => negb (p x)) l) = length l)%nat.
  Proof. induction l as [|x l IH]; cbn; [lia|]. destruct (p x); cbn; lia. Qed.

  (* the state right after the node went into the dag and the ready orphans were taken out *)
  Lemma first_half s n :
    Inv s -> has_key s (H n) = false -> all_seen (dag s) (children n) = true ->
    let h := H n in
    let dag1 := eins (h, n) (dag s) in
    let ready := filter (fun e => all_seen dag1 (children (snd e))) (orphans s) in
    let s1 := mkmreg (nins h (filter (fun r => negb (nhas r (children n))) (roots s))) dag1
                     (filter (fun e => negb (all_seen dag1 (children (snd e)))) (orphans s)) in
    Inv s1 /\
    (forall e, In e (dag s1) <-> In e (dag s) \/ e = (h, n)) /\
    (forall e, In e (orphans s1) <-> In e (orphans s) /\ ~ In e ready).
  Proof.
    intros I Hfresh Hseen h dag1 ready s1. subst h.
    apply orb_false_iff in Hfresh as [Hfd Hfo].
    assert (Hdag1 : forall e, In e dag1 <-> In e (dag s) \/ e = (H n, n)).
    { intros e. unfold dag1, eins. rewrite (kins_In _ _ NL) by apply I. split.
      - intros [->|[Hi _]]; auto.
      - intros [Hi| ->]; [|auto]. right. split; [exact Hi|]. destruct e as [k m]. cbn.
        intros ->. rewrite ehas_false in Hfd. eapply Hfd, Hi. }
    assert (Horph1 : forall e, In e (orphans s1) <-> In e (orphans s) /\ ~ In e ready).
    { intros e. cbn. unfold ready. rewrite !filter_In. split.
      - intros [Hi Hn]. split; [exact Hi|]. intros [_ Hr]. rewrite Hr in Hn. discriminate.
      - intros [Hi Hn]. split; [exact Hi|].
        destruct (all_seen dag1 (children (snd e))) eqn:E; [|reflexivity]. exfalso. apply Hn. auto. }
    assert (Hmono : forall k, ehas k (dag s) = true -> ehas k dag1 = true).
    { intros k Hk. apply ehas_iff in Hk as (m & Hi). apply ehas_iff. exists m. apply Hdag1. auto. }
    assert (Hh1 : ehas (H n) dag1 = true) by (apply ehas_iff; exists n; apply Hdag1; auto).
    split; [|split; assumption].
    split; cbn [roots dag orphans s1].
    - apply (kins_sorted _ _ NL), I.
    - apply ksorted_filter, I.
    - apply (kins_sorted _ _ NL), ksorted_filter, I.
    - intros k m Hi. apply Hdag1 in Hi as [Hi|E]; [eapply i_dag_key; eauto | inversion E; reflexivity].
    - intros k m Hi. apply filter_In in Hi as [Hi _]. eapply i_orph_key; eauto.
    - intros k Hk. apply ehas_false. intros m Hi. apply filter_In in Hi as [Hi _].
      apply ehas_iff in Hk as (m' & Hk). apply Hdag1 in Hk as [Hk|E].
      + assert (ehas k (orphans s) = false) as Hf by (apply I, ehas_iff; eauto).
        rewrite ehas_false in Hf. eapply Hf, Hi.
      + inversion E; subst. rewrite ehas_false in Hfo. eapply Hfo, Hi.
    - intros k m Hi. apply Hdag1 in Hi as [Hi|E].
      + eapply all_seen_mono; [exact Hmono | eapply i_closed; eauto].
      + inversion E; subst. eapply all_seen_mono; [exact Hmono | exact Hseen].
    - intros k m Hi. apply filter_In in Hi as [_ Hn]. cbn in Hn. apply negb_true_iff in Hn. exact Hn.
    - intros k. unfold nins. rewrite (kins_In _ _ NL) by (apply ksorted_filter, I).
      rewrite filter_In, negb_true_iff. split.
      + intros [->|[[Hr Hc] Hne]].
        * split; [exact Hh1|]. intros k' n' Hi Hc. apply Hdag1 in Hi as [Hi|E].
          -- pose proof (i_closed _ I _ _ Hi) as Hcl. rewrite all_seen_iff in Hcl.
             apply Hcl in Hc. congruence.
          -- inversion E; subst. rewrite all_seen_iff in Hseen. apply Hseen in Hc. congruence.
        * apply (i_roots _ I) in Hr as [Hr1 Hr2]. split; [apply Hmono, Hr1|].
          intros k' n' Hi Hc'. apply Hdag1 in Hi as [Hi|E]; [eapply Hr2; eauto|].
          inversion E; subst. apply nhas_iff in Hc'. congruence.
      + intros [Hk Hnc]. destruct (N.eq_dec k (H n)) as [->|Hne]; [auto|]. right. split; [|exact Hne].
        split.
        * apply (i_roots _ I). split.
          -- apply ehas_iff in Hk as (m & Hi). apply Hdag1 in Hi as [Hi|E]; [apply ehas_iff; eauto|].
             inversion E; congruence.
          -- intros k' n' Hi. apply (Hnc k' n'). apply Hdag1. auto.
        * destruct (nhas k (children n)) eqn:E; [|reflexivity]. apply nhas_iff in E.
          exfalso. apply (Hnc (H n) n); [apply Hdag1; auto | exact E].
    - intros k m Hi. apply Hdag1 in Hi as [Hi|E].
      + eapply grounded_mono; [|eapply i_ground; eauto]. intros e He. apply Hdag1. auto.
      + inversion E; subst. econstructor; [apply Hdag1; right; reflexivity|].
        intros c Hc. rewrite all_seen_iff in Hseen. apply Hseen in Hc. apply ehas_iff in Hc as (m' & Hc).
        eapply grounded_mono; [|eapply i_ground; eauto]. intros e He. apply Hdag1. auto.
  Qed.

  (* the nodes released together: new, ready, pairwise different hashes *)
  Definition batch_ok (s : mreg) (R : list node) : Prop :=
    NoDup (map H R) /\ forall n, In n R -> has_key s (H n) = false /\ all_seen (dag s) (children n) = true.

  Lemma batch_fold f :
    (forall s n, Inv s -> (length (orphans s) <= f)%nat -> has_key s (H n) = false ->
                 all_seen (dag s) (children n) = true -> step_post s n (apply_fuel H f s n)) ->
    forall R s, Inv s -> (R <> [] -> (length (orphans s) <= f)%nat) -> batch_ok s R ->
      let s' := fold_left (apply_fuel H f) R s in
      Inv s' /\
      (forall e, entry_of s' e <-> entry_of s e \/ exists n, In n R /\ e = (H n, n)) /\
      (forall e, In e (dag s) -> In e (dag s')) /\
      (length (orphans s') <= length (orphans s))%nat.
  Proof.
    intros IHf. induction R as [|n R IH]; intros s I Hlen [Hnd Hb]; cbn.
    - split; [exact I|]. split; [|split; [auto | lia]].
      intros e. split; [auto | intros [He|(n & [] & _)]; exact He].
    - inversion Hnd as [|? ? Hnin Hnd']; subst.
      destruct (Hb n (or_introl eq_refl)) as [Hf Hs].
      assert (Hlen' : (length (orphans s) <= f)%nat) by (apply Hlen; discriminate).
      destruct (IHf s n I Hlen' Hf Hs) as (I1 & He1 & Hd1 & Hl1).
      assert (Hb1 : batch_ok (apply_fuel H f s n) R).
      { split; [exact Hnd'|]. intros m Hm. destruct (Hb m (or_intror Hm)) as [Hfm Hsm]. split.
        - unfold has_key. apply orb_false_iff. apply orb_false_iff in Hfm as [Hfd Hfo].
          split; apply ehas_false; intros x Hx.
          + assert (entry_of (apply_fuel H f s n) (H m, x)) as Hent by (left; exact Hx).
            apply He1 in Hent as [[Hd|Ho]|E].
            * rewrite ehas_false in Hfd. eapply Hfd, Hd.
            * rewrite ehas_false in Hfo. eapply Hfo, Ho.
            * inversion E as [[E1 E2]]. apply Hnin. rewrite <- E1. apply in_map, Hm.
          + assert (entry_of (apply_fuel H f s n) (H m, x)) as Hent by (right; exact Hx).
            apply He1 in Hent as [[Hd|Ho]|E].
            * rewrite ehas_false in Hfd. eapply Hfd, Hd.
            * rewrite ehas_false in Hfo. eapply Hfo, Ho.
            * inversion E as [[E1 E2]]. apply Hnin. rewrite <- E1. apply in_map, Hm.
        - eapply all_seen_mono; [apply dag_sub_has, Hd1 | exact Hsm]. }
      destruct (IH _ I1 ltac:(intros _; lia) Hb1) as (I2 & He2 & Hd2 & Hl2).
      split; [exact I2|]. split; [|split; [auto | lia]].
      intros e. rewrite He2, He1. split.
      + intros [[He| ->]|(m & Hm & ->)]; eauto.
      + intros [He|(m & [<-|Hm] & ->)]; eauto.
  Qed.

  Lemma apply_fuel_ready f : forall s n,
    Inv s -> (length (orphans s) <= f)%nat -> has_key s (H n) = false ->
    all_seen (dag s) (children n) = true -> step_post s n (apply_fuel H f s n).
  Proof.
    induction f as [|f IHf]; intros s n I Hlen Hfresh Hseen.
    - (* no orphans at all *)
      destruct (first_half s n I Hfresh Hseen) as (I1 & Hd1 & Ho1).
      assert (Ho : orphans s = []) by (destruct (orphans s); [reflexivity | cbn in Hlen; lia]).
      cbn [apply_fuel]. unfold has_key in Hfresh. rewrite Hfresh, Hseen.
      split; [exact I1|]. split; [|split].
      + intros e. unfold entry_of. rewrite Hd1, Ho1. rewrite Ho. cbn. tauto.
      + intros e He. apply Hd1. auto.
      + cbn. rewrite Ho. cbn. lia.
    - destruct (first_half s n I Hfresh Hseen) as (I1 & Hd1 & Ho1).
      cbn [apply_fuel]. unfold has_key in Hfresh. rewrite Hfresh, Hseen.
      set (h := H n) in *. set (dag1 := eins (h, n) (dag s)) in *.
      set (ready := filter (fun e => all_seen dag1 (children (snd e))) (orphans s)) in *.
      set (s1 := mkmreg _ dag1 _) in *.
      assert (Hsplit : (length ready + length (orphans s1) = length (orphans s))%nat)
        by (apply filter_split_length).
        assert (Hready_in : forall e, In e ready -> In e (orphans s) /\ all_seen dag1 (children (snd e)) = true).
        { intros e He. unfold ready in He. apply filter_In in He. exact He. }
        assert (Hb : batch_ok s1 (map snd ready)).
        { split.
          - assert (Hsr : esorted ready) by (apply ksorted_filter, I).
            assert (Hkeys : map H (map snd ready) = map fst ready).
            { rewrite map_map. apply map_ext_in. intros [k m] He. cbn.
              symmetry. eapply i_orph_key; [exact I|]. apply Hready_in in He. apply He. }
            rewrite Hkeys. clear - Hsr. induction Hsr as [|x l Hx Hs IH]; cbn; constructor; [|exact IH].
            intros Hin. apply in_map_iff in Hin as (y & Ey & Hy). apply Hx in Hy. rewrite Ey in Hy.
            rewrite N.compare_refl in Hy. discriminate.
          - intros m Hm. apply in_map_iff in Hm as ([k m'] & Em & He). cbn in Em. subst m'.
            destruct (Hready_in _ He) as [Hio Hrs]. cbn in Hrs.
            assert (k = H m) as -> by (apply (i_orph_key _ I _ _ Hio)).
            split; [|exact Hrs]. unfold has_key. apply orb_false_iff. split; apply ehas_false; intros x Hx.
            + apply Hd1 in Hx as [Hx|E].
              * assert (ehas (H m) (orphans s) = false) as Hf by (apply I, ehas_iff; eauto).
                rewrite ehas_false in Hf. eapply Hf, Hio.
              * apply orb_false_iff in Hfresh as [_ Hfo]. rewrite ehas_false in Hfo.
                inversion E as [[E1 E2]]. fold h in E1. rewrite E1 in Hio. eapply Hfo, Hio.
            + apply Ho1 in Hx as [Hx Hnr].
              assert ((H m, x) = (H m, m)) as E.
              { eapply (ksorted_key_unique _ _ NL); [apply (i_orph_sorted _ I) | exact Hx | exact Hio | reflexivity]. }
              rewrite E in Hnr. contradiction. }
        assert (Hlen1 : map snd ready <> [] -> (length (orphans s1) <= f)%nat).
        { intros Hne. destruct (length ready) eqn:El; [|lia].
          apply length_zero_iff_nil in El. rewrite El in Hne. exfalso. apply Hne. reflexivity. }
        destruct (batch_fold f IHf (map snd ready) s1 I1 Hlen1 Hb) as (I2 & He2 & Hd2 & Hl2).
        split; [exact I2|]. split; [|split].
        * intros e. rewrite He2. unfold entry_of at 1. rewrite Hd1, Ho1. split.
          -- intros [[[Hd| ->]|[Ho _]]|(m & Hm & ->)]; unfold entry_of; auto.
             apply in_map_iff in Hm as ([k m'] & Em & He). cbn in Em. subst m'.
             destruct (Hready_in _ He) as [Hio _].
             assert (k = H m) as -> by (apply (i_orph_key _ I _ _ Hio)). auto.
          -- intros [[Hd|Ho]| ->]; auto.
             destruct (in_dec (fun a b : entry => ltac:(decide equality; [decide equality; apply list_eq_dec; apply N.eq_dec | apply N.eq_dec])) e ready) as [Hr|Hnr].
             ++ right. destruct e as [k m]. exists m. split.
                ** apply in_map_iff. exists (k, m). auto.
                ** f_equal. apply (i_orph_key _ I _ _ Ho).
             ++ left. right. auto.
        * intros e He. apply Hd2, Hd1. auto.
        * lia.
  Qed.

  (* ---- one top-level apply *)
  Lemma mr_apply_spec s n : Inv s ->
    Inv (mr_apply H s n) /\
    (forall e, entry_of (mr_apply H s n) e <-> entry_of s e \/ (e = (H n, n) /\ has_key s (H n) = false)).
  Proof.
    intros I. unfold mr_apply.
    destruct (has_key s (H n)) eqn:Hk.
    - assert (apply_fuel H (length (orphans s)) s n = s) as ->.
      { destruct (length (orphans s)); cbn [apply_fuel]; unfold has_key in Hk; rewrite Hk; reflexivity. }
      split; [exact I|]. intros e. split; [auto | intros [He|[_ F]]; [exact He | discriminate]].
    - destruct (all_seen (dag s) (children n)) eqn:Hs.
      + destruct (apply_fuel_ready (length (orphans s)) s n I (le_n _) Hk Hs) as (I' & He & _).
        split; [exact I'|]. intros e. rewrite He. tauto.
      + assert (apply_fuel H (length (orphans s)) s n =
                mkmreg (roots s) (dag s) (eins (H n, n) (orphans s))) as ->.
        { destruct (length (orphans s)); cbn [apply_fuel]; unfold has_key in Hk; rewrite Hk, Hs; reflexivity. }
        apply orb_false_iff in Hk as [Hkd Hko].
        assert (Hin : forall e, In e (eins (H n, n) (orphans s)) <-> In e (orphans s) \/ e = (H n, n)).
        { intros e. unfold eins. rewrite (kins_In _ _ NL) by apply I. split.
          - intros [->|[Hi _]]; auto.
          - intros [Hi| ->]; [|auto]. right. split; [exact Hi|]. destruct e as [k m]. cbn.
            intros ->. rewrite ehas_false in Hko. eapply Hko, Hi. }
        split.
        * split; cbn [roots dag orphans]; try apply I.
          -- apply (kins_sorted _ _ NL), I.
          -- intros k m Hi. apply Hin in Hi as [Hi|E]; [eapply i_orph_key; eauto | congruence].
          -- intros k Hd. apply ehas_false. intros m Hi. apply Hin in Hi as [Hi|E].
             ++ assert (ehas k (orphans s) = false) as Hf by (apply I, Hd).
                rewrite ehas_false in Hf. eapply Hf, Hi.
             ++ inversion E; subst. congruence.
          -- intros k m Hi. apply Hin in Hi as [Hi|E]; [eapply i_noready; eauto|].
             inversion E; subst. exact Hs.
        * intros e. unfold entry_of. cbn [dag orphans]. rewrite Hin. tauto.
  Qed.

  (* ---- a whole delivery *)
  Lemma deliver_spec l : forall s, Inv s ->
    let s' := fold_left (mr_apply H) l s in
    Inv s' /\
    (forall e, entry_of s' e -> entry_of s e \/ exists n, In n l /\ e = (H n, n)) /\
    (forall k, has_key s' k = true <-> has_key s k = true \/ exists n, In n l /\ H n = k) /\
    (forall e, entry_of s e -> entry_of s' e).
  Proof.
    induction l as [|n l IH]; intros s I; cbn.
    - split; [exact I|]. split; [auto|]. split; [|auto]. intros k. split; [auto|].
      intros [Hk|(n & [] & _)]. exact Hk.
    - destruct (mr_apply_spec s n I) as (I1 & He1).
      destruct (IH _ I1) as (I2 & He2 & Hk2 & Hm2).
      assert (Hk1 : forall k, has_key (mr_apply H s n) k = true <-> has_key s k = true \/ H n = k).
      { intros k. unfold has_key. rewrite !orb_true_iff, !ehas_iff. split.
        - intros [(m & Hi)|(m & Hi)].
          + assert (entry_of (mr_apply H s n) (k, m)) as Hent by (left; exact Hi).
            apply He1 in Hent as [[Hd|Ho]|[E _]]; [left; left; eauto | left; right; eauto | inversion E; auto].
          + assert (entry_of (mr_apply H s n) (k, m)) as Hent by (right; exact Hi).
            apply He1 in Hent as [[Hd|Ho]|[E _]]; [left; left; eauto | left; right; eauto | inversion E; auto].
        - intros [[(m & Hi)|(m & Hi)]|E].
          + assert (entry_of (mr_apply H s n) (k, m)) as [Hd|Ho] by (apply He1; left; left; exact Hi); eauto.
          + assert (entry_of (mr_apply H s n) (k, m)) as [Hd|Ho] by (apply He1; left; right; exact Hi); eauto.
          + subst k. destruct (has_key s (H n)) eqn:Hk.
            * unfold has_key in Hk. apply orb_true_iff in Hk. rewrite !ehas_iff in Hk.
              destruct Hk as [(m & Hi)|(m & Hi)].
              -- assert (entry_of (mr_apply H s n) (H n, m)) as [Hd|Ho] by (apply He1; left; left; exact Hi); eauto.
              -- assert (entry_of (mr_apply H s n) (H n, m)) as [Hd|Ho] by (apply He1; left; right; exact Hi); eauto.
            * assert (entry_of (mr_apply H s n) (H n, n)) as [Hd|Ho] by (apply He1; right; auto); eauto. }
      split; [exact I2|]. split; [|split].
      + intros e He. apply He2 in He as [He|(m & Hm & ->)]; [|eauto].
        apply He1 in He as [He|[-> _]]; eauto.
      + intros k. rewrite Hk2, Hk1. split.
        * intros [[Hk|E]|(m & Hm & E)]; eauto.
        * intros [Hk|(m & [->|Hm] & E)]; eauto.
      + intros e He. apply Hm2, He1. auto.
  Qed.

  (* ---- canonicity: the invariant and the entries determine the state *)
  Lemma dag_determined s1 s2 : Inv s1 -> Inv s2 -> (forall e, entry_of s1 e -> entry_of s2 e) ->
    forall k, grounded (dag s1) k -> forall n, In (k, n) (dag s1) -> In (k, n) (dag s2).
  Proof.
    intros I1 I2 Hsub k Hg. induction Hg as [k n0 Hi0 _ IH]. intros n Hi.
    destruct (Hsub (k, n) (or_introl Hi)) as [Hd|Ho]; [exact Hd|]. exfalso.
    pose proof (i_noready _ I2 _ _ Ho) as Hnr.
    assert (all_seen (dag s2) (children n) = true) as Hs; [|congruence].
    apply all_seen_iff. intros c Hc.
    assert (n0 = n) as ->.
    { assert ((k, n0) = (k, n)) as E by (eapply (ksorted_key_unique _ _ NL); [apply (i_dag_sorted _ I1) | exact Hi0 | exact Hi | reflexivity]).
      congruence. }
    pose proof (i_closed _ I1 _ _ Hi) as Hcl. rewrite all_seen_iff in Hcl.
    specialize (Hcl c Hc). apply ehas_iff in Hcl as (m & Hm). apply ehas_iff. exists m.
    apply (IH c Hc m Hm).
  Qed.

  Lemma state_determined s1 s2 : Inv s1 -> Inv s2 -> (forall e, entry_of s1 e <-> entry_of s2 e) -> s1 = s2.
  Proof.
    intros I1 I2 Hent.
    assert (Hdag : forall e, In e (dag s1) <-> In e (dag s2)).
    { intros [k n]. split; intros Hi.
      - eapply (dag_determined s1 s2); eauto. intros e. apply Hent. eapply i_ground; eauto.
      - eapply (dag_determined s2 s1); eauto. intros e. apply Hent. eapply i_ground; eauto. }
    assert (Edag : dag s1 = dag s2)
      by (apply (ksorted_ext (@fst N node) N.compare NL); [apply (i_dag_sorted _ I1) | apply (i_dag_sorted _ I2) | exact Hdag]).
    assert (Eorph : orphans s1 = orphans s2).
    { apply (ksorted_ext (@fst N node) N.compare NL); [apply (i_orph_sorted _ I1) | apply (i_orph_sorted _ I2) |]. intros [k n].
      assert (forall s, Inv s -> In (k, n) (orphans s) -> ~ In (k, n) (dag s)) as Hex.
      { intros s I Ho Hd. assert (ehas k (orphans s) = false) as Hf by (apply I, ehas_iff; eauto).
        rewrite ehas_false in Hf. eapply Hf, Ho. }
      split; intros Ho.
      - destruct (proj1 (Hent (k, n)) (or_intror Ho)) as [Hd|Ho2]; [|exact Ho2].
        apply Hdag in Hd. exfalso. exact (Hex s1 I1 Ho Hd).
      - destruct (proj2 (Hent (k, n)) (or_intror Ho)) as [Hd|Ho1]; [|exact Ho1].
        apply Hdag in Hd. exfalso. exact (Hex s2 I2 Ho Hd). }
    assert (Eroots : roots s1 = roots s2).
    { apply (ksorted_ext (fun x : N => x) N.compare NL); [apply (i_roots_sorted _ I1) | apply (i_roots_sorted _ I2) |]. intros k.
      rewrite (i_roots _ I1), (i_roots _ I2), Edag. tauto. }
    destruct s1, s2. cbn in *. congruence.
  Qed.
End WithH.
