(* Proofs about model/RecordStore.v, part 4 (C02): crash at any moment, torn files, re-open. *)
From Coq Require Import List Arith PeanoNat NArith String Ascii Bool Lia ZifyBool ZifyNat ZifyN.
From V Require Import lib.Strs gen.Consts model.RecordStore proofs.RecordStore.
Import ListNotations.
Open Scope N_scope.

Local Arguments fname : simpl never.
Local Arguments keyb : simpl never.
Local Arguments file_bytes : simpl never.
Local Arguments read_bytes : simpl never.
Local Arguments header_kind : simpl never.

Ltac sproj := cbn [idx bydist farthest cache range payments started starts files metrics tasks chan].

Lemma crash_is_step E s tears : crash E s tears = fst (step E s (OCrash tears)).
Proof. reflexivity. Qed.

Lemma run_app E a b s : run E (a ++ b) s = run E b (run E a s).
Proof. unfold run. apply fold_left_app. Qed.

(* safety: what a re-opened store returns was handed in for that key -- whatever was torn *)
Lemma restart_safe_lemma E : cipher_ok E -> e_encrypt E = Consts.rs_encrypt_records_shipped ->
  forall ops tears k v, get E (crash E (run E ops (init E)) tears) k = Some v -> In v (hist ops k).
Proof.
  intros C En ops tears k v G.
  assert (R : crash E (run E ops (init E)) tears = run E (ops ++ [OCrash tears]) (init E)).
  { rewrite run_app. reflexivity. }
  rewrite R in G. apply (get_only_put_values_lemma E C En) in G.
  rewrite hist_app in G. cbn in G. now rewrite app_nil_r in G.
Qed.

(* ------------------------------------------------------------------ lookups through tear / filter *)
Lemma flookup_tear_other E ts k km fs : k <> fst km ->
  flookup (fname k) (tear E ts fs km) = flookup (fname k) fs.
Proof.
  intros N. unfold tear. destruct (first_write (fst km) ts); auto. destruct (write_ok (fst km)); auto.
  apply (alookup_ainsert_other String.eqb String.eqb_eq). intros H. apply fname_inj in H. auto.
Qed.

Lemma flookup_tears_other E ts k tears : ~ In k (map fst tears) -> forall fs,
  flookup (fname k) (fold_left (tear E ts) tears fs) = flookup (fname k) fs.
Proof.
  induction tears as [|km r IH]; intros Hn fs; cbn [fold_left]; auto.
  rewrite IH; [|intros H; apply Hn; now right]. apply flookup_tear_other. intros ->. apply Hn. now left.
Qed.

Lemma nodup_lookup {V} name (c : V) fs : NoDup (map fst fs) -> In (name, c) fs -> flookup name fs = Some c.
Proof.
  induction fs as [|[n0 c0] r IH]; cbn; [tauto|]. intros Nd [H|H]; inversion Nd; subst.
  - inversion H; subst. now rewrite String.eqb_refl.
  - destruct (String.eqb_spec name n0) as [->|Ne]; auto.
    exfalso. apply H2. apply in_map_iff. exists (n0, c); auto.
Qed.

Lemma load_idx_has E f k t : forall fs, In f fs -> fst (load_entry E f) = Some (k, t) ->
  exists t', klookup k (load_idx E fs) = Some t'.
Proof.
  induction fs as [|f0 r IH]; cbn [In load_idx]; [tauto|]. intros [->|Hin] L.
  - rewrite L. exists t. apply (alookup_ainsert_same keyb keyb_eq).
  - destruct (IH Hin L) as [t' Ht]. destruct (fst (load_entry E f0)) as [[k0 t0]|]; eauto.
    destruct (String.string_dec k k0) as [->|N].
    + exists t0. apply (alookup_ainsert_same keyb keyb_eq).
    + exists t'. unfold klookup, kinsert. rewrite (alookup_ainsert_other keyb keyb_eq); auto.
Qed.

Lemma load_idx_from E k t : forall fs, klookup k (load_idx E fs) = Some t ->
  exists f t', In f fs /\ fst (load_entry E f) = Some (k, t').
Proof.
  induction fs as [|f0 r IH]; cbn [load_idx]; [discriminate|].
  destruct (fst (load_entry E f0)) as [[k0 t0]|] eqn:L.
  - destruct (String.string_dec k k0) as [->|N].
    + intros _. exists f0, t0. split; [now left|exact L].
    + unfold klookup, kinsert. rewrite (alookup_ainsert_other keyb keyb_eq) by auto.
      intros H. destruct (IH H) as (f & t' & Hin & Hl). exists f, t'. split; [now right|exact Hl].
  - intros H. destruct (IH H) as (f & t' & Hin & Hl). exists f, t'. split; [now right|exact Hl].
Qed.

Lemma load_entry_key E f k t : fst (load_entry E f) = Some (k, t) -> key_of_fname (fst f) = Some k.
Proof.
  unfold load_entry. destruct (key_of_fname (fst f)) as [k0|]; [|discriminate].
  destruct (read_bytes E k0 (snd f)) as [v|]; [|discriminate].
  destruct (header_kind v); [|discriminate]. cbn. intros H; inversion H; reflexivity.
Qed.

(* ------------------------------------------------------------------ durability *)
Lemma restart_durable_state E H s tears k v : dec_enc E -> Safe E H s ->
  flookup (fname k) (files s) = Some (file_bytes E k v) -> header_kind v <> None ->
  ~ In k (map fst tears) ->
  get E (crash E s tears) k = Some v /\ contains (crash E s tears) k = true.
Proof.
  intros DE S Fk Hk Nt. unfold crash.
  set (fs1 := fold_left (tear E (tasks s)) tears (files s)).
  assert (F1 : flookup (fname k) fs1 = Some (file_bytes E k v)).
  { unfold fs1. now rewrite flookup_tears_other. }
  assert (N1 : NoDup (map fst fs1)).
  { destruct (tear_fold E H (tasks s) tears (safe_tasks _ _ _ S) (files s)) as [_ N]; auto.
    - intros f Hin. apply good_torn. eapply safe_files; eauto.
    - eapply safe_names; eauto. }
  assert (In1 : In (fname k, file_bytes E k v) fs1) by (apply (alookup_in String.eqb String.eqb_eq); exact F1).
  destruct (header_kind v) as [kd|] eqn:Hd; [|congruence].
  assert (L : load_entry E (fname k, file_bytes E k v) =
              (Some (k, if kd =? Consts.rs_kind_chunk then RChunk else RNonChunk (e_chash E v)), true)).
  { unfold load_entry. cbn [fst snd]. rewrite key_of_fname_fname, read_file_bytes by auto. now rewrite Hd. }
  destruct (load_idx_has E _ k _ fs1 In1 (f_equal fst L)) as [t' Ht].
  split.
  - unfold get, reopen; sproj. cbn [klookup alookup]. rewrite Ht.
    rewrite (nodup_lookup (fname k) (file_bytes E k v)).
    + now apply read_file_bytes.
    + now apply nodup_filter_fst.
    + apply filter_In. split; auto. now rewrite L.
  - unfold contains, reopen; sproj. now rewrite Ht.
Qed.

(* ------------------------------------------------------------------ completed removals stay removed *)
Lemma restart_removed_state E (H : key -> value -> Prop) s tears k : Safe E H s ->
  flookup (fname k) (files s) = None -> ~ In k (map fst tears) ->
  get E (crash E s tears) k = None /\ contains (crash E s tears) k = false.
Proof.
  intros S Fk Nt. unfold crash.
  set (fs1 := fold_left (tear E (tasks s)) tears (files s)).
  assert (F1 : flookup (fname k) fs1 = None) by (unfold fs1; now rewrite flookup_tears_other).
  assert (T1 : forall f, In f fs1 -> file_torn E H f).
  { destruct (tear_fold E H (tasks s) tears (safe_tasks _ _ _ S) (files s)) as [T _]; auto.
    - intros f Hin. apply good_torn. eapply safe_files; eauto.
    - eapply safe_names; eauto. }
  assert (Nl : klookup k (load_idx E fs1) = None).
  { destruct (klookup k (load_idx E fs1)) as [t|] eqn:El; auto. exfalso.
    destruct (load_idx_from E k t fs1 El) as (f & t' & Hin & Hl).
    apply load_entry_key in Hl. destruct (T1 f Hin) as (k' & v' & m & A & B & C).
    rewrite A, key_of_fname_fname in Hl. inversion Hl; subst k'.
    destruct f as [n c]. cbn in A. subst n.
    destruct (in_alookup String.eqb String.eqb_eq _ _ _ Hin) as [c' Hc]. unfold flookup in F1. congruence. }
  split.
  - unfold get, reopen; sproj. cbn [klookup alookup]. fold (klookup k (load_idx E fs1)). now rewrite Nl.
  - unfold contains, reopen; sproj. now rewrite Nl.
Qed.

(* what "the file write had completed" / "the removal had completed" mean on the model *)
Lemma completed_write_on_disk_lemma E s i k v t :
  enabled (tasks s) i = true -> nth_error (tasks s) i = Some (TWrite k v t) -> write_ok k = true ->
  flookup (fname k) (files (run_task E s i)) = Some (file_bytes E k v).
Proof.
  intros En Nt Wo. unfold run_task. rewrite En, Nt. cbn [exec_task]. rewrite Wo.
  unfold set_tasks, set_files; sproj. apply (alookup_ainsert_same String.eqb String.eqb_eq).
Qed.

Lemma completed_delete_on_disk_lemma E s i k :
  enabled (tasks s) i = true -> nth_error (tasks s) i = Some (TDelete k) ->
  flookup (fname k) (files (run_task E s i)) = None.
Proof.
  intros En Nt. unfold run_task. rewrite En, Nt. cbn [exec_task].
  unfold set_tasks, set_files; sproj. apply (alookup_aremove_same String.eqb String.eqb_eq).
Qed.

Lemma reachable_safe E : cipher_ok E -> e_encrypt E = Consts.rs_encrypt_records_shipped -> forall ops,
  Safe E (fun k v => False \/ In v (hist ops k)) (run E ops (init E)).
Proof.
  intros [DE DP] En ops. change Consts.rs_encrypt_records_shipped with true in En.
  apply (safe_run E En DP ops (init E) (fun _ _ => False)). apply safe_init.
Qed.

Lemma restart_durable_lemma E : cipher_ok E -> e_encrypt E = Consts.rs_encrypt_records_shipped ->
  forall ops tears k v,
  flookup (fname k) (files (run E ops (init E))) = Some (file_bytes E k v) -> header_kind v <> None ->
  ~ In k (map fst tears) ->
  get E (crash E (run E ops (init E)) tears) k = Some v /\ contains (crash E (run E ops (init E)) tears) k = true.
Proof.
  intros C En ops tears k v. eapply restart_durable_state; [apply C|]. apply reachable_safe; auto.
Qed.

Lemma restart_removed_lemma E : cipher_ok E -> e_encrypt E = Consts.rs_encrypt_records_shipped ->
  forall ops tears k,
  flookup (fname k) (files (run E ops (init E))) = None -> ~ In k (map fst tears) ->
  get E (crash E (run E ops (init E)) tears) k = None /\ contains (crash E (run E ops (init E)) tears) k = false.
Proof.
  intros C En ops tears k. eapply restart_removed_state. apply reachable_safe; auto.
Qed.

(* ------------------------------------------------------------------ why the shipped feature matters *)
Definition plain_env : env :=
  mkEnv (fun k => slen k) (fun v => len v) toy_enc toy_dec false [18; 32; 1; 2] 4 3.

(* without encrypt-records a torn file with an intact header is served: a truncated value *)
Lemma restart_safe_unencrypted_refuted_lemma :
  exists E ops tears k v, cipher_ok E /\ e_encrypt E = false /\
    get E (crash E (run E ops (init E)) tears) k = Some v /\ ~ In v (hist ops k).
Proof.
  exists plain_env, [OPut "k"%string [145; 1; 7; 8; 9] RChunk], [("k"%string, 4)], "k"%string, [145; 1; 7; 8].
  split; [split; intros n v; [apply toy_dec_enc|apply toy_dec_prefix]|].
  split; [reflexivity|]. split; [vm_compute; reflexivity|].
  cbn. intros [H|[]]. discriminate.
Qed.

(* non-vacuity: a crash that tears one write and leaves a completed one *)
Definition crash_env : env :=
  mkEnv (fun k => slen k) (fun v => len v) toy_enc toy_dec true [18; 32; 1; 2] 4 3.
Definition crash_example : list op :=
  [OPut "a"%string [145; 1; 1] RChunk; OPut "bb"%string [145; 5; 2; 2] RScratchpad; ORun 0; ORun 0].

Example crash_example_ok :
  let s := run crash_env crash_example (init crash_env) in
  flookup (fname "a"%string) (files s) = Some (file_bytes crash_env "a"%string [145; 1; 1]) /\
  header_kind [145; 1; 1] <> None /\
  get crash_env (crash crash_env s [("bb"%string, 5)]) "a"%string = Some [145; 1; 1] /\
  get crash_env (crash crash_env s [("bb"%string, 5)]) "bb"%string = None /\
  get crash_env (crash crash_env s [("bb"%string, 1000)]) "bb"%string = Some [145; 5; 2; 2] /\
  klookup "bb"%string (idx (crash crash_env s [("bb"%string, 1000)])) = Some (RNonChunk 4).
Proof. vm_compute. repeat split; try reflexivity. discriminate. Qed.
