(* C08: liveness under explicit fairness premises. *)
From Coq Require Import List NArith Bool Arith Lia Permutation ZifyBool ZifyNat ZifyN.
From V Require Import gen.Consts model.Fetcher proofs.Fetcher proofs.FetcherDet proofs.FetcherSched
  proofs.FetcherProps proofs.FetcherProps2.
Import ListNotations.
Open Scope N_scope.

(* ---------------------------------------------------------------- everything tracked is in the universe *)
Definition InU (U : list kt) (s : state) : Prop :=
  (forall x, In x (tbf s) -> In (kth_kt (fst x)) U) /\ (forall e, In e (ongoing s) -> In (fst e) U).

Lemma og_kt_kth e : fst e = kth_kt (og_kth e).
Proof. destruct e as [[k t] [h d]]. reflexivity. Qed.

Lemma step_InU U pre o out post :
  reachable pre -> InU U pre -> step_ok pre o out post = true ->
  (forall h inc held, o = AddKeys h inc held -> incl inc U) -> InU U post.
Proof.
  intros HR [I1 I2] HS HA. destruct (schedules o) eqn:Hs.
  - destruct (step_sched_inv _ _ _ _ HR HS Hs) as (s1 & fast & batch & E & _ & Hret & SP & W & W1 & Wm & _).
    set (mid := fst (prune s1)) in *.
    assert (T1 : forall x, In x (tbf mid) -> In (kth_kt (fst x)) U).
    { intros x Hx. subst mid. apply prune_tbf in Hx. destruct Hx as [Hx _].
      destruct (pre_prune_tbf _ _ _ _ E x Hx) as [Hp|(h & inc & held & y & Ho & Hy & _ & ->)]; auto.
      cbn. apply range_filter_In in Hy. destruct Hy as [Hy _]. apply first_pass_In in Hy.
      apply (HA _ _ _ Ho). tauto. }
    split.
    + intros x Hx. apply T1. apply (ss_tbf_post _ _ _ SP x Hx).
    + intros e He. destruct (og_mem (fst e) (ongoing mid)) eqn:Em.
      * apply og_mem_In in Em. pose proof (ss_old _ _ _ SP e He Em) as Hm. subst mid.
        apply prune_og in Hm. destruct Hm as [Hm _]. apply (pre_prune_og _ _ _ _ E) in Hm.
        destruct Hm as [[Hp _]|(h & inc & held & x & Ho & Hx & -> & _)]; auto.
        cbn. assert (Hin : In x (first_pass pre h inc held)) by (rewrite Hx; left; auto).
        apply first_pass_In in Hin. apply (HA _ _ _ Ho). tauto.
      * assert (Hfr : In e (fresh mid post)) by (apply fresh_In; split; auto; apply og_mem_false; auto).
        destruct (ss_new _ _ _ SP e Hfr) as [Hq _]. apply in_map_iff in Hq. destruct Hq as (x & Hq & Hx).
        rewrite og_kt_kth, <- Hq. apply T1; auto.
  - assert (E : pre_prune pre o = None).
    { destruct (pre_prune pre o) eqn:E; auto. assert (schedules o = true) by (apply (pre_prune_schedules pre o); eauto). congruence. }
    apply (step_ok_nosched _ _ _ _ E) in HS. destruct HS as (_ & _ & Heq).
    apply st_equiv_spec in Heq. destruct Heq as (_ & _ & HT & HO). split.
    + intros x Hx. apply I1. apply (nosched_mid_tbf _ _ E). apply HT; auto.
    + intros e He. apply I2. apply HO in He. apply (nosched_mid_og _ _ E) in He.
      unfold surviving in He. apply filter_In in He. tauto.
Qed.

(* ---------------------------------------------------------------- one round makes progress *)
Lemma round_progress pre h inc held out post x :
  reachable pre -> step_ok pre (AddKeys h inc held) out post = true -> In x inc ->
  is_held held (fst x) = false ->
  (forall rg, range pre = Some rg -> kdist (fst x) <= rg) ->
  (forall f, farthest pre = Some f -> kdist (fst x) <= f) ->
  (forall e, In e (ongoing pre) -> ~ expired pre e) ->
  (forall d, In ((x, h), d) (tbf pre) -> now pre < d) ->
  inflight post x \/ (MAXn <= length (ongoing post))%nat.
Proof.
  intros HR HS Hx Hu Hrg Hfar Hexp Hpend.
  destruct (step_sched_inv _ _ _ _ HR HS eq_refl) as (s1 & fast & batch & E & _ & Hret & SP & W & W1 & Wm & (_ & _ & Hnow)).
  cbn [pre_prune] in E. pose proof (add_keys_pre_spec pre h inc held) as A.
  inversion E as [E']. rewrite E' in A. cbn [fst snd] in A.
  assert (Hne : forall e, In e (ongoing s1) -> ~ expired s1 e).
  { intros e He. destruct (ap_og_from _ _ _ _ _ _ A e He) as [[Hp _]|(y & _ & -> & _)].
    - unfold expired. rewrite Hnow. apply Hexp; auto.
    - unfold expired, og_deadline. cbn. rewrite Hnow. lia. }
  destruct (prune_no_expired s1 Hne) as (PT & PO & _).
  set (mid := fst (prune s1)) in *.
  assert (Hq : In x (map fst (ongoing mid)) \/ In (x, h) (map fst (tbf mid))).
  { rewrite PT, PO.
    destruct (tbf_mem (x, h) (tbf pre)) eqn:Eq.
    - right. apply tbf_mem_In in Eq. apply in_map_iff in Eq. destruct Eq as ([xh d] & Hk & Hin).
      cbn in Hk. subst xh. apply in_map_iff. exists ((x, h), d). split; auto.
      apply (ap_tbf_keep _ _ _ _ _ _ A); auto. cbn. apply unheld_not_stored; auto.
    - apply tbf_mem_false in Eq.
      assert (Hfp : In x (first_pass pre h inc held)) by (apply first_pass_In; repeat split; auto).
      destruct (Nat.eq_dec (length (first_pass pre h inc held)) 1) as [H1|H1].
      + left. destruct (first_pass pre h inc held) as [|y [|z r]] eqn:Ef; try (cbn in H1; lia).
        destruct Hfp as [<-|[]]. apply (ap_single _ _ _ _ _ _ A). exact Ef.
      + right. apply (ap_tbf_new _ _ _ _ _ _ A); auto. apply range_filter_In. split; auto. }
  destruct Hq as [Hq|Hq].
  - left. unfold inflight. apply in_map_iff in Hq. destruct Hq as (e & <- & He).
    apply in_map. apply (ss_keep _ _ _ SP); auto.
  - destruct (Nat.lt_ge_cases (length (ongoing post)) MAXn) as [Hlt|Hge]; [left|right; auto].
    apply in_map_iff in Hq. destruct Hq as (e & Hk & He).
    pose proof (ss_max1 _ _ _ SP Hlt e He) as Hm. rewrite Hk in Hm. exact Hm.
Qed.

(* ---------------------------------------------------------------- the measure decreases *)
Lemma NoDup_filter_keep {A} (p : A -> bool) l : NoDup l -> NoDup (filter p l).
Proof.
  induction l as [|a r IH]; cbn; intros H; [constructor|]. inversion H; subst.
  destruct (p a); auto. constructor; auto. intros Hin. apply filter_In in Hin. tauto.
Qed.

Lemma filter_count_ge (p1 p2 : kt -> bool) (U : list kt) (E : list og_entry) :
  NoDup U -> (forall u, In u U -> p2 u = true -> p1 u = true) ->
  NoDup (map fst E) ->
  (forall e, In e E -> In (fst e) U /\ p1 (fst e) = true /\ p2 (fst e) = false) ->
  (length (filter p2 U) + length E <= length (filter p1 U))%nat.
Proof.
  intros HU Himp HE Hall.
  replace (length E) with (length (map fst E)) by apply map_length. rewrite <- app_length.
  apply NoDup_incl_length.
  - apply NoDup_app_disj; auto.
    + apply NoDup_filter_keep; auto.
    + intros u Hu Hin. apply filter_In in Hu. apply in_map_iff in Hin. destruct Hin as (e & <- & He).
      destruct (Hall e He) as (_ & _ & H2). destruct Hu as [_ Hu]. congruence.
  - intros u Hu. apply in_app_iff in Hu. destruct Hu as [Hu|Hu].
    + apply filter_In in Hu. apply filter_In. split; [tauto|]. apply Himp; tauto.
    + apply in_map_iff in Hu. destruct Hu as (e & <- & He). apply filter_In. destruct (Hall e He) as (H1 & H2 & _). auto.
Qed.

Lemma is_held_get held k : is_held held k = true <-> exists t, held_get held k = Some t.
Proof. unfold is_held. destruct (held_get held k); split; eauto; try discriminate. intros (t & H); discriminate. Qed.

(* ---------------------------------------------------------------- the theorem *)
(* as long as x is not in flight after a round, that round leaves at least MAX_PARALLEL_FETCH other
   unheld records in flight, all stored by the next round: the rounds are bounded *)
Theorem liveness_bound_lemma : forall U h x tr,
  valid tr -> NoDup (map fst U) -> adverts_in U tr -> In x U ->
  let rs := rounds h x init tr in
  Forall (fair_round U h x) rs -> fair_chain rs ->
  (forall r, In r rs -> ~ inflight (r_post r) x) ->
  match rs with
  | [] => True
  | r1 :: _ => (MAXn * length rs + 1 <= unheld_count U (r_held r1))%nat
  end.
Proof.
  intros U h x tr Hv HU HA HxU.
  assert (HUn : NoDup U) by (apply (NoDup_map_NoDup fst); auto).
  assert (G : forall tr s, reachable s -> InU U s -> run_ok s tr = true -> adverts_in U tr ->
            Forall (fair_round U h x) (rounds h x s tr) -> fair_chain (rounds h x s tr) ->
            (forall r, In r (rounds h x s tr) -> ~ inflight (r_post r) x) ->
            match rounds h x s tr with
            | [] => True
            | r1 :: _ => (MAXn * length (rounds h x s tr) + 1 <= unheld_count U (r_held r1))%nat
            end).
  { clear tr Hv HA. induction tr as [|[[o out] post] r IH]; intros s HR HI Hrun HA HF HC HN; [exact I|].
    cbn [run_ok] in Hrun. apply andb_true_iff in Hrun. destruct Hrun as [Hst Hrun].
    assert (HR' : reachable post) by (eapply reachable_step; eauto).
    assert (HI' : InU U post).
    { apply (step_InU U s o out post HR HI Hst). intros h' inc held Ho. eapply HA; [left; reflexivity | eauto]. }
    assert (HA' : adverts_in U r).
    { intros o' out' post' h' inc held Hin Ho. eapply HA; [right; exact Hin | eauto]. }
    cbn [rounds] in *.
    destruct o as [h' inc held| | | | | |]; try (apply IH; auto).
    destruct ((h' =? h) && existsb (kt_eqb x) inc) eqn:Eb; [|apply IH; auto].
    apply andb_true_iff in Eb. destruct Eb as [Eh Ein]. apply N.eqb_eq in Eh. subst h'.
    apply existsb_exists in Ein. destruct Ein as (y & Hy & Hq). apply kt_eqb_eq in Hq. subst y.
    inversion HF as [|? ? Hfair HF']; subst.
    destruct Hfair as (F1 & F2 & F3 & F4 & F5 & F6). cbn [r_pre r_held fst snd] in *.
    assert (HN' : forall r0, In r0 (rounds h x post r) -> ~ inflight (r_post r0) x) by (intros r0 H0; apply HN; right; auto).
    assert (Hnot : ~ inflight post x) by (apply (HN (s, held, post)); left; auto).
    (* capacity was exhausted: MAX_PARALLEL_FETCH fetches of unheld universe records are in flight *)
    destruct (round_progress s h inc held out post x HR Hst Hy F1 F2 F3 F4 F5) as [Hin|Hcap]; [contradiction|].
    assert (Hunheld : forall e, In e (ongoing post) -> is_held held (og_key e) = false).
    { intros e He. destruct (is_held held (og_key e)) eqn:Eh; auto. exfalso.
      apply is_held_get in Eh. destruct Eh as (t'' & Hg).
      pose proof (F6 _ _ Hg) as Hin2.
      assert (HeU : In (fst e) U) by (apply HI'; auto).
      assert (t'' = snd (fst e)).
      { destruct e as [[k t] [hh d]]. cbn in *. apply (NoDup_map_fst_inj U k t'' t); auto. }
      subst t''. destruct (only_unheld_lemma s h inc held out post HR Hst) as (O1 & _).
      apply (O1 e He). exact Hg. }
    assert (Wp : NoDup (map fst (ongoing post))) by (apply (reachable_Wf _ HR')).
    destruct (rounds h x post r) as [|r2 rest] eqn:Er.
    - (* last round: x itself is unheld too *)
      cbn [length]. unfold unheld_count.
      pose proof (filter_count_ge (fun u => negb (is_held held (fst u))) (fun u => kt_eqb u x) U (ongoing post) HUn) as Hc.
      assert (H1 : (1 <= length (filter (fun u => kt_eqb u x) U))%nat).
      { assert (In x (filter (fun u => kt_eqb u x) U)) by (apply filter_In; split; auto; apply kt_eqb_refl).
        destruct (filter (fun u => kt_eqb u x) U); [contradiction | cbn; lia]. }
      assert (Hc' : (length (filter (fun u => kt_eqb u x) U) + length (ongoing post)
                     <= length (filter (fun u => negb (is_held held (fst u))) U))%nat).
      { apply Hc; auto.
        - intros u _ Hu. apply kt_eqb_eq in Hu. subst u. rewrite F1. reflexivity.
        - intros e He. split; [apply HI'; auto|]. split.
          + specialize (Hunheld e He). destruct e as [[k t] [hh d]]. cbn in *. rewrite Hunheld. reflexivity.
          + destruct (kt_eqb (fst e) x) eqn:Eq; auto. apply kt_eqb_eq in Eq. exfalso. apply Hnot.
            unfold inflight. rewrite <- Eq. apply in_map; auto. }
      lia.
    - assert (HC' : fair_link (s, held, post) r2 /\ fair_chain (r2 :: rest)) by exact HC.
      destruct HC' as [[L1 L2] HC'].
      specialize (IH post HR' HI' Hrun HA'). rewrite Er in IH.
      specialize (IH HF' HC' HN'). cbn [r_held r_post fst snd] in *.
      unfold unheld_count in *.
      pose proof (filter_count_ge (fun u => negb (is_held held (fst u)))
                                  (fun u => negb (is_held (r_held r2) (fst u))) U (ongoing post) HUn) as Hc.
      assert (Hc' : (length (filter (fun u => negb (is_held (r_held r2) (fst u))) U) + length (ongoing post)
                     <= length (filter (fun u => negb (is_held held (fst u))) U))%nat).
      { apply Hc; auto.
        - intros u _ H2. apply negb_true_iff in H2. apply negb_true_iff.
          destruct (is_held held (fst u)) eqn:E1; auto. rewrite (L1 _ E1) in H2. discriminate.
        - intros e He. split; [apply HI'; auto|]. split.
          + specialize (Hunheld e He). destruct e as [[k t] [hh d]]. cbn in *. rewrite Hunheld. reflexivity.
          + apply negb_false_iff. specialize (L2 e He). destruct e as [[k t] [hh d]]. exact L2. }
      cbn [length] in *. rewrite Nat.mul_succ_r. lia. }
  intros rs. subst rs. apply G; auto.
  - apply reachable_init.
  - split; intros ? [].
Qed.

(* the positive form: with at least ceil(unheld / MAX_PARALLEL_FETCH) fair rounds, x is in flight
   after one of them *)
Theorem liveness_lemma : forall U h x tr,
  valid tr -> NoDup (map fst U) -> adverts_in U tr -> In x U ->
  let rs := rounds h x init tr in
  Forall (fair_round U h x) rs -> fair_chain rs ->
  forall r1 rest, rs = r1 :: rest ->
  (unheld_count U (r_held r1) <= MAXn * length rs)%nat ->
  exists r, In r rs /\ inflight (r_post r) x.
Proof.
  intros U h x tr Hv HU HA HxU rs HF HC r1 rest Hrs Hcount.
  destruct (existsb (fun r => og_mem x (ongoing (r_post r))) rs) eqn:Ex.
  - apply existsb_exists in Ex. destruct Ex as (r & Hr & Hm). exists r. split; auto.
    unfold inflight. apply og_mem_In; auto.
  - exfalso.
    assert (HN : forall r, In r rs -> ~ inflight (r_post r) x).
    { intros r Hr Hin. assert (existsb (fun r => og_mem x (ongoing (r_post r))) rs = true); [|congruence].
      apply existsb_exists. exists r. split; auto. apply og_mem_In; auto. }
    pose proof (liveness_bound_lemma U h x tr Hv HU HA HxU HF HC HN) as HB.
    fold rs in HB. rewrite Hrs in HB. rewrite Hrs in Hcount. lia.
Qed.
