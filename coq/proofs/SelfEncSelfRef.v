(* C14, part 7: the level loop of fetch_from_data_map_chunk is driven by the First / Additional TAG.
   Content that itself parses as a (serialised) data-map chunk -- a backup copy of another upload's
   data map -- round-trips like any other content, also when the other upload's chunks are on the
   network; a loop that keeps unpacking for as long as the decrypted bytes parse as a data-map chunk
   returns the OTHER upload's plaintext instead. *)
From Coq Require Import List NArith ZArith Bool Lia ZifyBool ZifyNat ZifyN Permutation.
From V Require Import lib.Strs gen.Consts model.ClientRead proofs.ClientRead model.SelfEnc
  proofs.SelfEncPartition proofs.SelfEncLists proofs.SelfEnc proofs.SelfEncMore.
Import ListNotations.
Open Scope N_scope.

(* the round trip holds against any well-formed store that CONTAINS the produced chunks (other
   uploads may be on the network as well) *)
Lemma roundtrip_in_larger_store C MAX fuel d root chunks st :
  codec_ok C -> 1 <= MAX ->
  encrypt C MAX fuel d = inl (root, chunks) ->
  good_store C st -> incl (root :: chunks) st ->
  exists levels, (1 <= levels <= S fuel)%nat /\
  forall sched fuel', valid_sched sched -> (levels <= fuel')%nat ->
    data_get C (store_net C st) sched fuel' root = inl d /\
    data_get_public C (store_net C st) sched fuel' (k_addr root) = inl d.
Proof.
  intros OK HM EN GS IS.
  pose proof (content_addressed_lemma C MAX fuel d (root, chunks) EN) as CA. unfold all_chunks in CA. cbn [fst snd] in CA.
  unfold encrypt in EN. destruct (se_encrypt C MAX d) as [[dm cs]|] eqn:SE; [|discriminate].
  destruct (pack C MAX fuel (First dm) []) as [[root' extra]|] eqn:P; [|discriminate].
  inversion EN; subst root' chunks. clear EN.
  destruct (pack_spec C MAX OK HM fuel _ _ _ _ P) as (_ & RA & _ & _ & rootlvl & k & U & Kf & F).
  exists (S k). split; [lia|]. intros sched fuel' VS Lf.
  assert (DG : data_get C (store_net C st) sched fuel' root = inl d).
  { unfold data_get, fetch_from_data_map_chunk. rewrite U.
    apply (fetch_levels_mono_le _ _ _ (k + 1)%nat); [lia|].
    apply (F _ sched GS); [intros c0 I; apply IS; right; apply in_or_app; right; exact I|exact VS|].
    cbn [fetch_levels dm_of].
    rewrite (fetch_honest C MAX d dm cs _ (sched dm) OK HM SE GS); [reflexivity| |apply VS].
    intros e Ie. apply IS. right. apply in_or_app. left. apply (in_map (fun c0 => mk_chunk C (snd c0))). exact Ie. }
  split; [exact DG|].
  unfold data_get_public. rewrite RA. rewrite (store_lookup C _ (k_value root) GS).
  - rewrite chunk_get_honest. exact DG.
  - apply IS. left. destruct root as [a v]. cbn in *. unfold mk_chunk. cbn. congruence.
Qed.

(* in particular for content that is the serialised data-map chunk of a data map level *)
Lemma datamap_content_roundtrips C MAX fuel lvl root chunks st :
  codec_ok C -> 1 <= MAX ->
  encrypt C MAX fuel (c_ser C (c_wrap C lvl)) = inl (root, chunks) ->
  good_store C st -> incl (root :: chunks) st ->
  exists levels, (1 <= levels <= S fuel)%nat /\
  forall sched fuel', valid_sched sched -> (levels <= fuel')%nat ->
    data_get C (store_net C st) sched fuel' root = inl (c_ser C (c_wrap C lvl)).
Proof.
  intros OK HM EN GS IS.
  destruct (roundtrip_in_larger_store C MAX fuel _ root chunks st OK HM EN GS IS) as (l & B & H).
  exists l. split; [exact B|]. intros sched fuel' VS L. apply (H sched fuel' VS L).
Qed.

Lemma fetch_levels_mono_le_get (f f' : nat) C nw sched root d :
  (f <= f')%nat -> data_get C nw sched f root = inl d -> data_get C nw sched f' root = inl d.
Proof.
  intros L. unfold data_get, fetch_from_data_map_chunk. destruct (c_unwrap C (k_value root)); [|discriminate].
  apply fetch_levels_mono_le. exact L.
Qed.

(* ---- the tag-blind loop (seeded change C14-11): keep unpacking while the decrypted bytes parse as
   a serialised chunk holding a data map level *)
Fixpoint fetch_levels_greedy (C : codec) (nw : net) (sched : datamap -> list nat) (fuel : nat) (lvl : level)
  : bytes + gerror :=
  match fuel with
  | O => inr GEFuel
  | S f =>
      match fetch_from_data_map C nw (dm_of lvl) (sched (dm_of lvl)) with
      | inr e => inr e
      | inl data =>
          match c_deser C data with
          | Some v => match c_unwrap C v with
                      | Some l' => fetch_levels_greedy C nw sched f l'
                      | None => inl data
                      end
          | None => inl data
          end
      end
  end.

Definition data_get_greedy C nw sched fuel (root : chunk) : bytes + gerror :=
  match c_unwrap C (k_value root) with
  | None => inr GEInvalidDataMap
  | Some l => fetch_levels_greedy C nw sched fuel l
  end.

(* non-vacuity / witness, on the concrete codec of SelfEncMore: U = 64 bytes (MAX_CHUNK_SIZE 16, a
   two-level map); the content stored afterwards is the serialised data-map chunk of U *)
Definition ex_U := encrypt ex_codec 16 5 (ex_data 64).
Definition ex_backup : bytes :=
  match ex_U with inl (rootU, _) => c_ser ex_codec (k_value rootU) | inr _ => [] end.
Definition ex_B := encrypt ex_codec 16 5 ex_backup.
Definition ex_network : list chunk :=
  match ex_U, ex_B with
  | inl (ru, cu), inl (rb, cb) => (rb :: cb) ++ (ru :: cu)
  | _, _ => []
  end.

Example ex_selfref_roundtrips :
  exists rootB chunksB lvl,
    ex_B = inl (rootB, chunksB) /\
    (* the stored content is the serialised chunk of a wrapped data map level ... *)
    ex_backup = c_ser ex_codec (c_wrap ex_codec lvl) /\ (3 <= lenN ex_backup) /\
    (* ... both uploads are on a collision-free network ... *)
    no_collision_b ex_network = true /\ incl (rootB :: chunksB) ex_network /\
    (* ... the read returns the stored bytes, for a reversed completion order ... *)
    data_get ex_codec (store_net ex_codec ex_network) rev_sched 4 rootB = inl ex_backup /\
    (* ... whereas the tag-blind loop unpacks them as more levels and returns the OTHER upload's data *)
    data_get_greedy ex_codec (store_net ex_codec ex_network) rev_sched 6 rootB = inl (ex_data 64) /\
    ex_backup <> ex_data 64.
Proof.
  destruct ex_B as [[rootB chunksB]|] eqn:E; [|vm_compute in E; discriminate].
  exists rootB, chunksB.
  destruct ex_U as [[rootU chunksU]|] eqn:EU; [|vm_compute in EU; discriminate].
  destruct (c_unwrap ex_codec (k_value rootU)) as [lvl|] eqn:UW; [|vm_compute in EU; inversion EU; subst; vm_compute in UW; discriminate].
  exists lvl. vm_compute in EU. inversion EU; subst rootU chunksU. vm_compute in UW. inversion UW; subst lvl.
  vm_compute in E. inversion E; subst rootB chunksB.
  split; [reflexivity|]. split; [vm_compute; reflexivity|]. split; [vm_compute; discriminate|].
  split; [vm_compute; reflexivity|].
  split; [vm_compute; intros c0 I; repeat (destruct I as [<-|I]; [auto 30|]); destruct I|].
  split; [vm_compute; reflexivity|]. split; [vm_compute; reflexivity|]. vm_compute. discriminate.
Qed.

Lemma greedy_unpacking_refuted :
  exists C MAX fuel d root chunks st sched f',
    codec_ok C /\ encrypt C MAX fuel d = inl (root, chunks) /\ incl (root :: chunks) st /\
    no_collision_b st = true /\ valid_sched sched /\
    data_get C (store_net C st) sched f' root = inl d /\
    exists other, data_get_greedy C (store_net C st) sched f' root = inl other /\ other <> d.
Proof.
  destruct ex_selfref_roundtrips as (rootB & chunksB & lvl & EB & _ & _ & NC & IS & DG & GR & NE).
  exists ex_codec, 16, 5%nat, ex_backup, rootB, chunksB, ex_network, rev_sched, 6%nat.
  split; [exact ex_codec_ok|]. split; [exact EB|]. split; [exact IS|]. split; [exact NC|].
  split; [exact rev_sched_valid|]. split.
  - apply (fetch_levels_mono_le_get 4 6); [lia|exact DG].
  - exists (ex_data 64). split; [exact GR|]. intros X. apply NE. symmetry. exact X.
Qed.
