(* Decoding is stable under appended bytes: if a prefix already decodes, more input after it changes
   nothing but the remainder.  Consequence: a strict prefix of a valid encoding never decodes
   (truncated input is an error). *)
From Coq Require Import List NArith ZArith Bool Lia Arith ZifyBool ZifyNat ZifyN.
From V Require Import lib.Strs lib.Serde lib.Msgpack proofs.Msgpack.
Import ListNotations.
Open Scope N_scope.
Ltac Zify.zify_post_hook ::= Z.div_mod_to_equations.

Definition ext (f : decoder) : Prop :=
  forall bs v r x, f bs = Some (v, r) -> f (bs ++ x) = Some (v, r ++ x).

(* ---------------------------------------------------------------- primitives *)
Lemma take_ext k bs h r x : take k bs = Some (h, r) -> take k (bs ++ x) = Some (h, r ++ x).
Proof.
  unfold take. destruct (Nat.ltb_spec (length bs) k) as [L|L]; [discriminate|].
  intros E. injection E as <- <-. rewrite app_length.
  replace (Nat.ltb (length bs + length x) k) with false by (symmetry; apply Nat.ltb_ge; lia).
  rewrite firstn_app, skipn_app.
  replace (k - length bs)%nat with 0%nat by lia. cbn [firstn skipn]. now rewrite app_nil_r.
Qed.

Lemma take_n_ext n bs h r x : take_n n bs = Some (h, r) -> take_n n (bs ++ x) = Some (h, r ++ x).
Proof.
  unfold take_n. destruct (N.ltb_spec (len bs) n) as [L|L]; [discriminate|].
  intros E. replace (len (bs ++ x) <? n) with false
    by (symmetry; apply N.ltb_ge; unfold len in *; rewrite app_length; lia).
  now apply take_ext.
Qed.

Lemma read_be_ext k bs u r x : read_be k bs = Some (u, r) -> read_be k (bs ++ x) = Some (u, r ++ x).
Proof.
  unfold read_be. destruct (take k bs) as [[h r0]|] eqn:E; [|discriminate].
  intros H. injection H as <- <-. now rewrite (take_ext _ _ _ _ x E).
Qed.

Lemma read_be_signed_ext k bs z r x :
  read_be_signed k bs = Some (z, r) -> read_be_signed k (bs ++ x) = Some (z, r ++ x).
Proof.
  unfold read_be_signed. destruct (read_be k bs) as [[u r0]|] eqn:E; [|discriminate].
  intros H. injection H as <- <-. now rewrite (read_be_ext _ _ _ _ x E).
Qed.

Ltac ext_step E x :=
  match type of E with
  | match read_be ?k ?r with _ => _ end = Some _ =>
      let E1 := fresh "E" in
      destruct (read_be k r) as [[? ?]|] eqn:E1; [|discriminate E];
      rewrite (read_be_ext _ _ _ _ x E1)
  end.

Lemma dec_int_ext bs z r x : dec_int bs = Some (z, r) -> dec_int (bs ++ x) = Some (z, r ++ x).
Proof.
  destruct bs as [|b t]; [discriminate|]. cbn [app]. unfold dec_int.
  destruct (b <? 128); [intros E; injection E as <- <-; reflexivity|].
  destruct (224 <=? b).
  { destruct (b <? 256); [|discriminate]. intros E; injection E as <- <-; reflexivity. }
  destruct (b =? 204); [intros E; ext_step E x; injection E as <- <-; reflexivity|].
  destruct (b =? 205); [intros E; ext_step E x; injection E as <- <-; reflexivity|].
  destruct (b =? 206); [intros E; ext_step E x; injection E as <- <-; reflexivity|].
  destruct (b =? 207); [intros E; ext_step E x; injection E as <- <-; reflexivity|].
  destruct (b =? 208); [apply read_be_signed_ext|].
  destruct (b =? 209); [apply read_be_signed_ext|].
  destruct (b =? 210); [apply read_be_signed_ext|].
  destruct (b =? 211); [apply read_be_signed_ext|]. discriminate.
Qed.

Lemma dec_len_ext F bs n r x : dec_len F bs = Some (n, r) -> dec_len F (bs ++ x) = Some (n, r ++ x).
Proof.
  destruct bs as [|b t]; [discriminate|]. cbn [app]. unfold dec_len.
  destruct ((fix_base F <=? b) && (b <? fix_base F + fix_cap F)); [intros E; injection E as <- <-; reflexivity|].
  destruct (match m8 F with Some m => b =? m | None => false end); [apply read_be_ext|].
  destruct (b =? m16 F); [apply read_be_ext|].
  destruct (b =? m32 F); [apply read_be_ext|]. discriminate.
Qed.

Lemma expect_name_ext n bs r x : expect_name n bs = Some r -> expect_name n (bs ++ x) = Some (r ++ x).
Proof.
  unfold expect_name. destruct (dec_len STR bs) as [[k r0]|] eqn:E1; [|discriminate].
  rewrite (dec_len_ext _ _ _ _ x E1).
  destruct (take_n k r0) as [[s r1]|] eqn:E2; [|discriminate].
  rewrite (take_n_ext _ _ _ _ x E2).
  destruct (bytes_eqb s n); [|discriminate]. intros E. now injection E as <-.
Qed.

(* ---------------------------------------------------------------- combinators *)
Lemma dec_many_ext f : ext f -> forall k bs l r x,
  dec_many f k bs = Some (l, r) -> dec_many f k (bs ++ x) = Some (l, r ++ x).
Proof.
  intros Hf. induction k as [|k IH]; intros bs l r x; cbn [dec_many].
  - intros E. now injection E as <- <-.
  - destruct (f bs) as [[v r1]|] eqn:E1; [|discriminate]. rewrite (Hf _ _ _ x E1).
    destruct (dec_many f k r1) as [[l' r2]|] eqn:E2; [|discriminate]. rewrite (IH _ _ _ x E2).
    intros E. now injection E as <- <-.
Qed.

Lemma dec_many2_ext f g : ext f -> ext g -> forall k bs l r x,
  dec_many2 f g k bs = Some (l, r) -> dec_many2 f g k (bs ++ x) = Some (l, r ++ x).
Proof.
  intros Hf Hg. induction k as [|k IH]; intros bs l r x; cbn [dec_many2].
  - intros E. now injection E as <- <-.
  - destruct (f bs) as [[a r1]|] eqn:E1; [|discriminate]. rewrite (Hf _ _ _ x E1).
    destruct (g r1) as [[b r2]|] eqn:E2; [|discriminate]. rewrite (Hg _ _ _ x E2).
    destruct (dec_many2 f g k r2) as [[l' r3]|] eqn:E3; [|discriminate]. rewrite (IH _ _ _ x E3).
    intros E. now injection E as <- <-.
Qed.

Lemma dec_each_ext fs : Forall ext fs -> forall bs l r x,
  dec_each fs bs = Some (l, r) -> dec_each fs (bs ++ x) = Some (l, r ++ x).
Proof.
  intros H. induction H as [|f fs Hf Hfs IH]; intros bs l r x; cbn [dec_each].
  - intros E. now injection E as <- <-.
  - destruct (f bs) as [[v r1]|] eqn:E1; [|discriminate]. rewrite (Hf _ _ _ x E1).
    destruct (dec_each fs r1) as [[l' r2]|] eqn:E2; [|discriminate]. rewrite (IH _ _ _ x E2).
    intros E. now injection E as <- <-.
Qed.

(* ---------------------------------------------------------------- enum alternatives *)
(* the head of a variant shape: (is it a unit variant, name) *)
Definition head_of (s : shape) : option (bool * list N) :=
  match s with
  | SUnitVariant n => Some (true, n)
  | SVariant n _ => Some (false, n)
  | _ => None
  end.

Definition head_eqb (a b : bool * list N) : bool := Bool.eqb (fst a) (fst b) && bytes_eqb (snd a) (snd b).

Fixpoint heads_distinct (vs : list shape) : bool :=
  match vs with
  | [] => true
  | s :: r =>
      match head_of s with
      | None => false
      | Some h =>
          forallb (fun s' => match head_of s' with Some h' => negb (head_eqb h h') | None => false end) r
          && heads_distinct r
      end
  end.

Fixpoint enum_ok (s : shape) : bool :=
  match s with
  | SOption s' | SSeq s' | SVariant _ s' => enum_ok s'
  | STuple l => forallb enum_ok l
  | SEnum vs => heads_distinct vs && forallb enum_ok vs
  | SMap k v => enum_ok k && enum_ok v
  | _ => true
  end.

(* a STR length marker is never a MAP length marker and vice versa *)
Lemma str_not_map b t t' n r : dec_len STR (b :: t) = Some (n, r) -> dec_len MAP (b :: t') = None.
Proof.
  unfold dec_len. cbn [fix_base fix_cap m8 m16 m32 STR MAP].
  destruct ((160 <=? b) && (b <? 160 + 32)) eqn:F.
  - apply andb_prop in F as [A B]. apply N.leb_le in A. apply N.ltb_lt in B.
    intros _. replace (128 <=? b) with true by (symmetry; apply N.leb_le; lia).
    replace (b <? 128 + 16) with false by (symmetry; apply N.ltb_ge; lia). cbn [andb].
    replace (b =? 222) with false by (symmetry; apply N.eqb_neq; lia).
    replace (b =? 223) with false by (symmetry; apply N.eqb_neq; lia). reflexivity.
  - destruct (N.eqb_spec b 217) as [->|]; [reflexivity|].
    destruct (N.eqb_spec b 218) as [->|]; [reflexivity|].
    destruct (N.eqb_spec b 219) as [->|]; [reflexivity|]. discriminate.
Qed.

Lemma map_not_str b t t' n r : dec_len MAP (b :: t) = Some (n, r) -> dec_len STR (b :: t') = None.
Proof.
  intros H. destruct (dec_len STR (b :: t')) as [[n' r']|] eqn:E; [|reflexivity].
  rewrite (str_not_map b t' t n' r' E) in H. discriminate.
Qed.

(* if one variant shape accepts a buffer, a variant shape with another head rejects every
   extension of that buffer *)
Lemma other_head_rejects s1 s2 h1 h2 bs v r x :
  head_of s1 = Some h1 -> head_of s2 = Some h2 -> head_eqb h1 h2 = false ->
  mp_decode_as s2 bs = Some (v, r) -> mp_decode_as s1 (bs ++ x) = None.
Proof.
  intros H1 H2 Hne Hd.
  destruct s2; cbn [head_of] in H2; try discriminate; injection H2 as <-;
    destruct s1; cbn [head_of] in H1; try discriminate; injection H1 as <-;
    unfold head_eqb in Hne; cbn [fst snd Bool.eqb] in Hne; cbn [mp_decode_as] in *.
  - (* unit / unit, other name *)
    cbn [andb] in Hne. unfold expect_name in *.
    destruct (dec_len STR bs) as [[k r0]|] eqn:E1; [|discriminate].
    rewrite (dec_len_ext _ _ _ _ x E1).
    destruct (take_n k r0) as [[s0 r1]|] eqn:E2; [|discriminate].
    rewrite (take_n_ext _ _ _ _ x E2).
    destruct (bytes_eqb s0 name) eqn:E3; [|discriminate].
    apply list_eqb_eq in E3. subst s0.
    destruct (bytes_eqb name name0) eqn:E4; [|reflexivity].
    apply list_eqb_eq in E4. subst. rewrite list_eqb_refl in Hne. discriminate.
  - (* s2 unit (str first), s1 non-unit (map first) *)
    unfold expect_name in Hd.
    destruct bs as [|b t]; [discriminate|].
    destruct (dec_len STR (b :: t)) as [[k r0]|] eqn:E1; [|discriminate].
    cbn [app]. rewrite (str_not_map b t (t ++ x) k r0 E1). reflexivity.
  - (* s2 non-unit, s1 unit *)
    destruct bs as [|b t]; [discriminate|].
    destruct (dec_len MAP (b :: t)) as [[k r0]|] eqn:E1; [|discriminate].
    cbn [app]. unfold expect_name. rewrite (map_not_str b t (t ++ x) k r0 E1). reflexivity.
  - (* non-unit / non-unit, other name *)
    cbn [andb] in Hne.
    destruct (dec_len MAP bs) as [[k r0]|] eqn:E1; [|discriminate].
    rewrite (dec_len_ext _ _ _ _ x E1).
    destruct (negb (k =? 1)); [discriminate|].
    unfold expect_name in *.
    destruct (dec_len STR r0) as [[k1 r1]|] eqn:E2; [|discriminate].
    rewrite (dec_len_ext _ _ _ _ x E2).
    destruct (take_n k1 r1) as [[s0 r2]|] eqn:E3; [|discriminate].
    rewrite (take_n_ext _ _ _ _ x E3).
    destruct (bytes_eqb s0 name) eqn:E4; [|discriminate].
    apply list_eqb_eq in E4. subst s0.
    destruct (bytes_eqb name name0) eqn:E5; [|reflexivity].
    apply list_eqb_eq in E5. subst. rewrite list_eqb_refl in Hne. discriminate.
Qed.

Lemma head_eqb_sym a b : head_eqb a b = head_eqb b a.
Proof.
  unfold head_eqb. destruct a as [u n], b as [u' m]; cbn [fst snd].
  f_equal; [destruct u, u'; reflexivity|].
  destruct (bytes_eqb n m) eqn:E.
  - apply list_eqb_eq in E. subst. now rewrite list_eqb_refl.
  - destruct (bytes_eqb m n) eqn:E'; [|reflexivity]. apply list_eqb_eq in E'. subst.
    rewrite list_eqb_refl in E. discriminate.
Qed.

Lemma dec_alt_ext vs :
  heads_distinct vs = true -> Forall (fun s => ext (mp_decode_as s)) vs ->
  ext (dec_alt (map mp_decode_as vs)).
Proof.
  intros Hd Hall. induction Hall as [|s vs Hs Hvs IH]; intros bs v r x; cbn [map dec_alt]; [discriminate|].
  cbn [heads_distinct] in Hd. destruct (head_of s) as [h|] eqn:Hh; [|discriminate].
  apply andb_prop in Hd as [Hd1 Hd2].
  destruct (mp_decode_as s bs) as [res|] eqn:E.
  - intros E'. injection E' as ->. now rewrite (Hs _ _ _ x E).
  - intros E'. specialize (IH Hd2 _ _ _ x E').
    (* the alternative that accepted bs has another head than s, so s rejects bs ++ x as well *)
    assert (R : mp_decode_as s (bs ++ x) = None).
    { clear IH. revert E'. clear Hvs Hd2 E. induction vs as [|s' vs' IHv]; cbn [map dec_alt]; [discriminate|].
      cbn [forallb] in Hd1. apply andb_prop in Hd1 as [Hn Hd1].
      destruct (head_of s') as [h'|] eqn:Hh'; [|discriminate].
      destruct (mp_decode_as s' bs) as [[v' r']|] eqn:E2.
      - intros _. eapply (other_head_rejects s s' h h'); eauto. now apply negb_true_iff in Hn.
      - apply IHv. exact Hd1. }
    now rewrite R.
Qed.

(* ---------------------------------------------------------------- the extension theorem *)
Theorem mp_decode_ext : forall s, enum_ok s = true -> ext (mp_decode_as s).
Proof.
  induction s using shape_ind_nested; intros Hok bs v r x; cbn [mp_decode_as]; cbn [enum_ok] in Hok.
  - (* SBool *) destruct bs as [|b t]; [discriminate|]. cbn [app].
    destruct (b =? 194); [intros E; now injection E as <- <-|].
    destruct (b =? 195); [intros E; now injection E as <- <-|discriminate].
  - (* SU *) destruct (dec_int bs) as [[z r0]|] eqn:E; [|discriminate]. rewrite (dec_int_ext _ _ _ x E).
    destruct ((0 <=? z)%Z && in_u w (Z.to_N z)); [|discriminate]. intros H; now injection H as <- <-.
  - (* SI *) destruct (dec_int bs) as [[z r0]|] eqn:E; [|discriminate]. rewrite (dec_int_ext _ _ _ x E).
    destruct (in_i w z); [|discriminate]. intros H; now injection H as <- <-.
  - (* SF32 *) destruct bs as [|b t]; [discriminate|]. cbn [app]. destruct (b =? 202); [|discriminate].
    destruct (read_be 4 t) as [[u r0]|] eqn:E; [|discriminate]. rewrite (read_be_ext _ _ _ _ x E).
    intros H; now injection H as <- <-.
  - (* SF64 *) destruct bs as [|b t]; [discriminate|]. cbn [app]. destruct (b =? 203); [|discriminate].
    destruct (read_be 8 t) as [[u r0]|] eqn:E; [|discriminate]. rewrite (read_be_ext _ _ _ _ x E).
    intros H; now injection H as <- <-.
  - (* SStr *) destruct (dec_len STR bs) as [[k r0]|] eqn:E1; [|discriminate]. rewrite (dec_len_ext _ _ _ _ x E1).
    destruct (take_n k r0) as [[s0 r1]|] eqn:E2; [|discriminate]. rewrite (take_n_ext _ _ _ _ x E2).
    destruct (utf8_valid s0); [|discriminate]. intros H; now injection H as <- <-.
  - (* SBytes *) destruct (dec_len BIN bs) as [[k r0]|] eqn:E1; [|discriminate]. rewrite (dec_len_ext _ _ _ _ x E1).
    destruct (take_n k r0) as [[s0 r1]|] eqn:E2; [|discriminate]. rewrite (take_n_ext _ _ _ _ x E2).
    intros H; now injection H as <- <-.
  - (* SOption *) destruct bs as [|b t]; [discriminate|]. cbn [app].
    destruct (b =? 192); [intros H; now injection H as <- <-|].
    destruct (mp_decode_as s (b :: t)) as [[v0 r0]|] eqn:E; [|discriminate].
    change (b :: t ++ x) with ((b :: t) ++ x). rewrite (IHs Hok _ _ _ x E).
    intros H; now injection H as <- <-.
  - (* SUnit *) destruct bs as [|b t]; [discriminate|]. cbn [app].
    destruct (b =? 192); [intros H; now injection H as <- <-|discriminate].
  - (* SSeq *) destruct (dec_len ARR bs) as [[n r0]|] eqn:E1; [|discriminate]. rewrite (dec_len_ext _ _ _ _ x E1).
    destruct (N.ltb_spec (len r0) n) as [L|L]; [discriminate|].
    replace (len (r0 ++ x) <? n) with false
      by (symmetry; apply N.ltb_ge; unfold len in *; rewrite app_length; lia).
    destruct (dec_many (mp_decode_as s) (N.to_nat n) r0) as [[l r1]|] eqn:E2; [|discriminate].
    rewrite (dec_many_ext _ (IHs Hok) _ _ _ _ x E2). intros H; now injection H as <- <-.
  - (* STuple *) destruct (dec_len ARR bs) as [[n r0]|] eqn:E1; [|discriminate]. rewrite (dec_len_ext _ _ _ _ x E1).
    destruct (negb (n =? len l)); [discriminate|].
    destruct (dec_each (map mp_decode_as l) r0) as [[l0 r1]|] eqn:E2; [|discriminate].
    assert (HF : Forall ext (map mp_decode_as l)).
    { apply Forall_map. rewrite Forall_forall in H |- *. intros s Hin. apply H; [exact Hin|].
      rewrite forallb_forall in Hok. now apply Hok. }
    rewrite (dec_each_ext _ HF _ _ _ x E2). intros E; now injection E as <- <-.
  - (* SUnitVariant *) destruct (expect_name n bs) as [r0|] eqn:E; [|discriminate].
    rewrite (expect_name_ext _ _ _ x E). intros H; now injection H as <- <-.
  - (* SVariant *) destruct (dec_len MAP bs) as [[k r0]|] eqn:E1; [|discriminate]. rewrite (dec_len_ext _ _ _ _ x E1).
    destruct (negb (k =? 1)); [discriminate|].
    destruct (expect_name n r0) as [r1|] eqn:E2; [|discriminate]. rewrite (expect_name_ext _ _ _ x E2).
    destruct (mp_decode_as s r1) as [[v0 r2]|] eqn:E3; [|discriminate]. rewrite (IHs Hok _ _ _ x E3).
    intros H; now injection H as <- <-.
  - (* SEnum *) apply andb_prop in Hok as [Hd Hall]. apply dec_alt_ext; [exact Hd|].
    rewrite Forall_forall in H |- *. intros s Hin. apply H; [exact Hin|].
    rewrite forallb_forall in Hall. now apply Hall.
  - (* SMap *) apply andb_prop in Hok as [Hk Hv].
    destruct (dec_len MAP bs) as [[n r0]|] eqn:E1; [|discriminate]. rewrite (dec_len_ext _ _ _ _ x E1).
    destruct (N.ltb_spec (len r0) (2 * n)) as [L|L]; [discriminate|].
    replace (len (r0 ++ x) <? 2 * n) with false
      by (symmetry; apply N.ltb_ge; unfold len in *; rewrite app_length; lia).
    destruct (dec_many2 (mp_decode_as s1) (mp_decode_as s2) (N.to_nat n) r0) as [[l r1]|] eqn:E2; [|discriminate].
    rewrite (dec_many2_ext _ _ (IHs1 Hk) (IHs2 Hv) _ _ _ _ x E2). intros H; now injection H as <- <-.
Qed.

(* ---------------------------------------------------------------- truncation *)
Theorem mp_truncated_rejected s v n :
  enum_ok s = true -> has_shape s v = true -> wf v = true ->
  (n < length (mp_encode v))%nat -> mp_decode_as s (firstn n (mp_encode v)) = None.
Proof.
  intros Hok Hs Hw Hn.
  destruct (mp_decode_as s (firstn n (mp_encode v))) as [[v' r']|] eqn:E; [|reflexivity]. exfalso.
  apply (mp_decode_ext s Hok _ _ _ (skipn n (mp_encode v))) in E.
  rewrite firstn_skipn in E.
  pose proof (mp_roundtrip s v [] Hs Hw) as R. rewrite app_nil_r in R. rewrite R in E.
  injection E as _ E. symmetry in E. apply app_eq_nil in E as [_ E].
  apply (f_equal (@length N)) in E. rewrite skipn_length in E. cbn in E. lia.
Qed.
