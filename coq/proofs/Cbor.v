(* Round trip of the CBOR model: cbor_decode_as s (cbor_encode v ++ rest) = Some (v, rest). *)
From Coq Require Import List NArith ZArith Bool Lia Arith ZifyBool ZifyNat ZifyN.
From V Require Import lib.Strs lib.Serde lib.Msgpack lib.Cbor proofs.Msgpack.
Import ListNotations.
Open Scope N_scope.
Ltac Zify.zify_post_hook ::= Z.div_mod_to_equations.

(* ---------------------------------------------------------------- heads *)
Lemma dec_head_first m i r : m < 8 -> i < 32 ->
  dec_head ((m * 32 + i) :: r) =
  if i <? 24 then Some (m, i, r)
  else if i =? 24 then match read_be 1 r with Some (n, r') => Some (m, n, r') | None => None end
  else if i =? 25 then match read_be 2 r with Some (n, r') => Some (m, n, r') | None => None end
  else if i =? 26 then match read_be 4 r with Some (n, r') => Some (m, n, r') | None => None end
  else if i =? 27 then match read_be 8 r with Some (n, r') => Some (m, n, r') | None => None end
  else None.
Proof.
  intros Hm Hi. unfold dec_head.
  replace (256 <=? m * 32 + i) with false by (symmetry; apply N.leb_gt; lia).
  replace ((m * 32 + i) / 32) with m by lia.
  replace ((m * 32 + i) mod 32) with i by lia. reflexivity.
Qed.

Lemma dec_head_24 m r : m < 8 -> dec_head ((m * 32 + 24) :: r) =
  match read_be 1 r with Some (n, r') => Some (m, n, r') | None => None end.
Proof. intros H. rewrite dec_head_first by lia. reflexivity. Qed.
Lemma dec_head_25 m r : m < 8 -> dec_head ((m * 32 + 25) :: r) =
  match read_be 2 r with Some (n, r') => Some (m, n, r') | None => None end.
Proof. intros H. rewrite dec_head_first by lia. reflexivity. Qed.
Lemma dec_head_26 m r : m < 8 -> dec_head ((m * 32 + 26) :: r) =
  match read_be 4 r with Some (n, r') => Some (m, n, r') | None => None end.
Proof. intros H. rewrite dec_head_first by lia. reflexivity. Qed.
Lemma dec_head_27 m r : m < 8 -> dec_head ((m * 32 + 27) :: r) =
  match read_be 8 r with Some (n, r') => Some (m, n, r') | None => None end.
Proof. intros H. rewrite dec_head_first by lia. reflexivity. Qed.

Lemma dec_head_head m n r : m < 8 -> n < 2 ^ 64 -> dec_head (head m n ++ r) = Some (m, n, r).
Proof.
  intros Hm Hn. unfold head.
  destruct (N.ltb_spec n 24) as [H0|H0].
  { cbn [app]. rewrite dec_head_first by lia. apply N.ltb_lt in H0. now rewrite H0. }
  destruct (N.ltb_spec n 256) as [H1|H1].
  { cbn [app]. rewrite dec_head_24 by exact Hm. now rewrite read_be_1. }
  destruct (N.ltb_spec n 65536) as [H2|H2].
  { cbn [app]. rewrite dec_head_25 by exact Hm. rewrite read_be_be; [reflexivity|exact H2]. }
  destruct (N.ltb_spec n 4294967296) as [H3|H3].
  { cbn [app]. rewrite dec_head_26 by exact Hm. rewrite read_be_be; [reflexivity|exact H3]. }
  cbn [app]. rewrite dec_head_27 by exact Hm. rewrite read_be_be; [reflexivity|exact Hn].
Qed.

Lemma dec_major_head m n r : m < 8 -> n < 2 ^ 64 -> dec_major m (head m n ++ r) = Some (n, r).
Proof. intros Hm Hn. unfold dec_major. rewrite dec_head_head by assumption. now rewrite N.eqb_refl. Qed.

Lemma dec_major_other m m' n r : m < 8 -> n < 2 ^ 64 -> m <> m' -> dec_major m' (head m n ++ r) = None.
Proof.
  intros Hm Hn Hne. unfold dec_major. rewrite dec_head_head by assumption.
  destruct (N.eqb_spec m m'); [contradiction|reflexivity].
Qed.

Lemma head_nonempty m n : head m n <> [].
Proof. unfold head. repeat match goal with |- context [if ?c then _ else _] => destruct c end; discriminate. Qed.

Lemma head_first_byte m n : m < 8 -> exists b t, head m n = b :: t /\ b / 32 = m /\ b < 256.
Proof.
  intros Hm. unfold head.
  destruct (N.ltb_spec n 24); [eexists; eexists; split; [reflexivity|split; lia]|].
  destruct (n <? 256); [eexists; eexists; split; [reflexivity|split; lia]|].
  destruct (n <? 65536); [eexists; eexists; split; [reflexivity|split; lia]|].
  destruct (n <? 4294967296); eexists; eexists; (split; [reflexivity|split; lia]).
Qed.

Lemma cbytes_ok_len l : cbytes_ok l = true -> len l < 2 ^ 64.
Proof. unfold cbytes_ok. intros H. apply andb_prop in H as [_ H]. now apply N.ltb_lt in H. Qed.

(* ---------------------------------------------------------------- encodings are non-empty *)
Lemma cbor_encode_nonempty v : cbor_encode v <> [].
Proof.
  induction v; cbn [cbor_encode]; try discriminate; try assumption;
    try (apply app_nonempty, head_nonempty); try apply head_nonempty.
  destruct (Z.leb 0 z); apply head_nonempty.
Qed.

Lemma cflat_map_len_ge (l : list sval) : (length l <= length (flat_map cbor_encode l))%nat.
Proof.
  induction l as [|x l IH]; cbn [flat_map length]; [lia|].
  rewrite app_length. pose proof (cbor_encode_nonempty x) as Hx.
  destruct (cbor_encode x); [congruence|]. cbn [length]. lia.
Qed.

(* ---------------------------------------------------------------- combinators *)
Lemma cdec_many_ok (f : decoder) (l : list sval) r :
  Forall (fun x => forall r, f (cbor_encode x ++ r) = Some (x, r)) l ->
  dec_many f (length l) (flat_map cbor_encode l ++ r) = Some (l, r).
Proof.
  intros H. induction H as [|x l Hx Hl IH]; [reflexivity|].
  cbn [length flat_map dec_many]. rewrite <- app_assoc, Hx, IH. reflexivity.
Qed.

Fixpoint calt_ok (f g : decoder) (l : list sval) : Prop :=
  match l with
  | [] => True
  | a :: b :: l' =>
      (forall r, f (cbor_encode a ++ r) = Some (a, r)) /\
      (forall r, g (cbor_encode b ++ r) = Some (b, r)) /\ calt_ok f g l'
  | _ => False
  end.

Lemma cdec_many2_ok (f g : decoder) (l : list sval) r :
  calt_ok f g l ->
  dec_many2 f g (N.to_nat (len l / 2)) (flat_map cbor_encode l ++ r) = Some (l, r).
Proof.
  revert r. induction l as [|a|a b l IH] using list_pair_ind; intros r H.
  - reflexivity.
  - destruct H.
  - destruct H as (Ha & Hb & Hl).
    assert (E : N.to_nat (len (a :: b :: l) / 2) = S (N.to_nat (len l / 2))).
    { unfold len. cbn [length]. lia. }
    rewrite E. cbn [flat_map dec_many2]. rewrite <- !app_assoc, Ha, Hb, IH by exact Hl. reflexivity.
Qed.

Lemma cdec_each_ok (fs : list decoder) (l : list sval) r :
  Forall2 (fun (f : decoder) x => forall r, f (cbor_encode x ++ r) = Some (x, r)) fs l ->
  dec_each fs (flat_map cbor_encode l ++ r) = Some (l, r).
Proof.
  intros H. revert r. induction H as [|f x fs l Hx Hl IH]; intros r; [reflexivity|].
  cbn [flat_map dec_each]. rewrite <- app_assoc, Hx, IH. reflexivity.
Qed.

(* ---------------------------------------------------------------- the round trip *)
Definition crt (s : cshape) : Prop :=
  forall v r, conforms s v = true -> cwf v = true -> cbor_decode_as s (cbor_encode v ++ r) = Some (v, r).

Lemma expect_text_ok n r : cbytes_ok n = true -> expect_text n ((head 3 (len n) ++ n) ++ r) = Some r.
Proof.
  intros H. unfold expect_text.
  rewrite <- !app_assoc, dec_major_head by (try lia; now apply cbytes_ok_len).
  rewrite take_n_app, list_eqb_refl. reflexivity.
Qed.

Lemma expect_text_other n m r :
  cbytes_ok m = true -> bytes_eqb n m = false -> expect_text n ((head 3 (len m) ++ m) ++ r) = None.
Proof.
  intros H Hne. unfold expect_text.
  rewrite <- !app_assoc, dec_major_head by (try lia; now apply cbytes_ok_len).
  rewrite take_n_app.
  destruct (bytes_eqb m n) eqn:E; [|reflexivity].
  apply list_eqb_eq in E. subst. rewrite list_eqb_refl in Hne. discriminate.
Qed.

Lemma dm_map1 X : dec_major 5 (161 :: X) = Some (1, X). Proof. reflexivity. Qed.
Lemma dm_text_of_map1 X : dec_major 3 (161 :: X) = None. Proof. reflexivity. Qed.

Lemma ctuple_F2 ss l :
  Forall crt ss -> all2b (map conforms ss) l = true -> forallb cwf l = true ->
  Forall2 (fun (f : decoder) x => forall r, f (cbor_encode x ++ r) = Some (x, r)) (map cbor_decode_as ss) l.
Proof.
  intros H. revert l. induction H as [|s ss Hs Hss IH]; intros [|x l] Ha Hw; cbn [map all2b] in *;
    try discriminate; [constructor|].
  apply andb_prop in Ha as [Ha1 Ha2]. cbn [forallb] in Hw. apply andb_prop in Hw as [Hw1 Hw2].
  constructor; [intros r; now apply Hs|now apply IH].
Qed.

Lemma cmap_alt_ok sk sv l :
  crt sk -> crt sv -> alt_all (conforms sk) (conforms sv) l = true -> forallb cwf l = true ->
  calt_ok (cbor_decode_as sk) (cbor_decode_as sv) l.
Proof.
  intros Hk Hv. induction l as [|a|a b l IH] using list_pair_ind; intros Ha Hw; cbn [alt_all calt_ok] in *.
  - exact I.
  - discriminate.
  - apply andb_prop in Ha as [Ha Ha3]. apply andb_prop in Ha as [Ha1 Ha2].
    cbn [forallb] in Hw. apply andb_prop in Hw as [Hw1 Hw]. apply andb_prop in Hw as [Hw2 Hw3].
    repeat split; [intros r; now apply Hk|intros r; now apply Hv|now apply IH].
Qed.

Lemma struct_fields_ok names ss : Forall crt ss -> forall l r,
  struct_ok names (map conforms ss) l = true -> forallb cwf l = true ->
  dec_fields names (map cbor_decode_as ss) (flat_map cbor_encode l ++ r) = Some (l, r) /\
  length l = (2 * length ss)%nat.
Proof.
  intros H. revert names. induction H as [|s ss Hs Hss IH]; intros names l r Ho Hw.
  - destruct names, l; cbn [map struct_ok] in Ho; try discriminate. split; reflexivity.
  - destruct names as [|n names]; cbn [map struct_ok] in Ho; [discriminate|].
    destruct l as [|k [|x l]]; try discriminate; destruct k; try discriminate.
    apply andb_prop in Ho as [Ho Ho3]. apply andb_prop in Ho as [Ho1 Ho2].
    apply list_eqb_eq in Ho1. subst s0.
    cbn [forallb] in Hw. apply andb_prop in Hw as [Hw1 Hw]. apply andb_prop in Hw as [Hw2 Hw3].
    cbn [cwf] in Hw1. apply andb_prop in Hw1 as [Hn _].
    destruct (IH names l r Ho3 Hw3) as [IH1 IH2].
    cbn [map dec_fields flat_map cbor_encode]. rewrite <- !app_assoc.
    rewrite (app_assoc (head 3 (len n)) n), expect_text_ok by exact Hn.
    rewrite Hs by assumption. rewrite IH1. split; [reflexivity|cbn [length]; lia].
Qed.

Lemma cfirst_match_variant v vs :
  first_match (map (fun s1 => (cvariant_head s1 v, conforms s1 v)) vs) = true ->
  (exists m, v = VUnitVariant m) \/ (exists m v', v = VVariant m v').
Proof.
  induction vs as [|s1 vs IH]; cbn [map first_match]; [discriminate|].
  destruct (cvariant_head s1 v) as [[|]|] eqn:Hh; [|exact IH|discriminate].
  intros _. destruct s1; cbn [cvariant_head] in Hh; try discriminate.
  - destruct v; try discriminate. left. eauto.
  - destruct v; try discriminate. right. eauto.
Qed.

Lemma cvariant_mismatch s1 v r :
  cvariant_head s1 v = Some false -> cwf v = true ->
  ((exists m, v = VUnitVariant m) \/ (exists m v', v = VVariant m v')) ->
  cbor_decode_as s1 (cbor_encode v ++ r) = None.
Proof.
  intros Hh Hw [[m ->]|[m [v' ->]]]; destruct s1; cbn [cvariant_head] in Hh; try discriminate;
    apply some_inj in Hh; cbn [cwf] in Hw; cbn [cbor_encode cbor_decode_as].
  - rewrite expect_text_other; auto.
  - rewrite <- app_assoc, dec_major_other by (try lia; now apply cbytes_ok_len). reflexivity.
  - cbn [app]. unfold expect_text. rewrite dm_text_of_map1. reflexivity.
  - apply andb_prop in Hw as [Hw1 Hw2].
    cbn [app]. rewrite dm_map1. change (negb (1 =? 1)) with false. cbv iota.
    rewrite <- app_assoc, expect_text_other; auto.
Qed.

Theorem cbor_roundtrip_all : forall s, crt s.
Proof.
  induction s using cshape_ind_nested; intros v r Hs Hw.
  - (* CBool *) destruct v; cbn [conforms] in Hs; try discriminate Hs. destruct b; reflexivity.
  - (* CU *) destruct v; cbn [conforms] in Hs; try discriminate Hs.
    apply iw_eqb_eq in Hs. subst. cbn [cwf] in Hw. cbn [cbor_encode cbor_decode_as].
    rewrite dec_major_head by (try lia; eapply in_u_bound; eauto). now rewrite Hw.
  - (* CI *) destruct v; cbn [conforms] in Hs; try discriminate Hs.
    apply iw_eqb_eq in Hs. subst. cbn [cwf] in Hw. cbn [cbor_encode cbor_decode_as].
    pose proof (in_i_bound _ _ Hw) as B.
    destruct (Z.leb_spec 0 z) as [P|P].
    + rewrite dec_head_head by lia. change (0 =? 0) with true. cbv iota.
      rewrite Z2N.id by lia. now rewrite Hw.
    + rewrite dec_head_head by lia. change (1 =? 0) with false. change (1 =? 1) with true. cbv iota.
      rewrite Z2N.id by lia. replace (-1 - (-1 - z))%Z with z by lia. now rewrite Hw.
  - (* CF32 *) destruct v; cbn [conforms] in Hs; try discriminate Hs.
    cbn [cwf] in Hw. apply N.ltb_lt in Hw. cbn [cbor_encode app cbor_decode_as].
    change (250 =? 250) with true. cbv iota. rewrite read_be_be by exact Hw. reflexivity.
  - (* CF64 *) destruct v; cbn [conforms] in Hs; try discriminate Hs.
    cbn [cwf] in Hw. apply N.ltb_lt in Hw. cbn [cbor_encode app cbor_decode_as].
    change (251 =? 251) with true. cbv iota. rewrite read_be_be by exact Hw. reflexivity.
  - (* CStr *) destruct v; cbn [conforms] in Hs; try discriminate Hs.
    cbn [cwf] in Hw. apply andb_prop in Hw as [Hw1 Hw2]. cbn [cbor_encode cbor_decode_as].
    rewrite <- app_assoc, dec_major_head by (try lia; now apply cbytes_ok_len).
    rewrite take_n_app, Hw2. reflexivity.
  - (* CBytes *) destruct v; cbn [conforms] in Hs; try discriminate Hs.
    cbn [cwf] in Hw. cbn [cbor_encode cbor_decode_as].
    rewrite <- app_assoc, dec_major_head by (try lia; now apply cbytes_ok_len).
    rewrite take_n_app. reflexivity.
  - (* COption *) destruct v; cbn [conforms] in Hs; try discriminate Hs; [reflexivity|].
    cbn [cwf] in Hw. apply andb_prop in Hw as [Hw Hn]. apply negb_true_iff in Hn.
    unfold starts_null in Hn. pose proof (IHs v r Hs Hw) as IH'. cbn [cbor_encode].
    revert IH'. destruct (cbor_encode v) as [|b t]; [discriminate|]. intros IH'.
    cbn [app cbor_decode_as] in *. rewrite Hn, IH'. reflexivity.
  - (* CUnit *) destruct v; cbn [conforms] in Hs; try discriminate Hs. reflexivity.
  - (* CSeq *) destruct v; cbn [conforms] in Hs; try discriminate Hs.
    cbn [cwf] in Hw. apply andb_prop in Hw as [Hw1 Hw2]. apply N.ltb_lt in Hw1.
    cbn [cbor_encode]. rewrite <- app_assoc. cbn [cbor_decode_as].
    rewrite dec_major_head by (try lia; exact Hw1).
    replace (len (flat_map cbor_encode l ++ r) <? len l) with false
      by (symmetry; apply N.ltb_ge; unfold len; rewrite app_length; pose proof (cflat_map_len_ge l); lia).
    unfold len at 1. rewrite Nat2N.id, cdec_many_ok; [reflexivity|].
    apply Forall_forall. intros x Hx r'. rewrite forallb_forall in Hs, Hw2. apply IHs; auto.
  - (* CTuple *) destruct v; cbn [conforms] in Hs; try discriminate Hs.
    rename l0 into xs.
    cbn [cwf] in Hw. apply andb_prop in Hw as [Hw1 Hw2]. apply N.ltb_lt in Hw1.
    cbn [cbor_encode]. rewrite <- app_assoc. cbn [cbor_decode_as].
    rewrite dec_major_head by (try lia; exact Hw1).
    pose proof (all2b_length _ _ Hs) as Hlen. rewrite map_length in Hlen.
    replace (len xs =? len l) with true by (symmetry; apply N.eqb_eq; unfold len; congruence).
    cbn [negb]. rewrite cdec_each_ok; [reflexivity|]. now apply ctuple_F2.
  - (* CStruct *) destruct v; cbn [conforms] in Hs; try discriminate Hs.
    rename l0 into xs.
    cbn [cwf] in Hw. apply andb_prop in Hw as [Hw1 Hw2]. apply N.ltb_lt in Hw1.
    cbn [cbor_encode]. rewrite <- app_assoc. cbn [cbor_decode_as].
    rewrite dec_major_head by (try lia; exact Hw1).
    destruct (struct_fields_ok ns l H xs r Hs Hw2) as [D L].
    replace (len xs / 2 =? len l) with true by (symmetry; apply N.eqb_eq; unfold len; lia).
    cbn [negb]. rewrite D. reflexivity.
  - (* CUnitVariant *) destruct v; cbn [conforms] in Hs; try discriminate Hs.
    apply list_eqb_eq in Hs. subst. cbn [cwf] in Hw. cbn [cbor_encode cbor_decode_as].
    rewrite expect_text_ok by exact Hw. reflexivity.
  - (* CVariant *) destruct v; cbn [conforms] in Hs; try discriminate Hs.
    apply andb_prop in Hs as [Hs1 Hs2]. apply list_eqb_eq in Hs1. subst.
    cbn [cwf] in Hw. apply andb_prop in Hw as [Hw1 Hw2].
    cbn [cbor_encode app cbor_decode_as]. rewrite dm_map1. change (negb (1 =? 1)) with false. cbv iota.
    rewrite <- app_assoc, expect_text_ok by exact Hw1. rewrite IHs by assumption. reflexivity.
  - (* CEnum *) cbn [conforms] in Hs. cbn [cbor_decode_as].
    pose proof (cfirst_match_variant _ _ Hs) as Hv.
    induction H as [|s1 vs Hs1 Hvs IH]; cbn [map first_match dec_alt] in *; [discriminate|].
    destruct (cvariant_head s1 v) as [[|]|] eqn:Hh.
    + rewrite Hs1 by assumption. reflexivity.
    + rewrite cvariant_mismatch by assumption. now apply IH.
    + discriminate.
  - (* CMap *) destruct v; cbn [conforms] in Hs; try discriminate Hs.
    cbn [cwf] in Hw. apply andb_prop in Hw as [Hw1 Hw2]. apply N.ltb_lt in Hw1.
    cbn [cbor_encode]. rewrite <- app_assoc. cbn [cbor_decode_as].
    rewrite dec_major_head by (try lia; exact Hw1).
    replace (len (flat_map cbor_encode l ++ r) <? 2 * (len l / 2)) with false
      by (symmetry; apply N.ltb_ge; unfold len; rewrite app_length; pose proof (cflat_map_len_ge l); lia).
    rewrite cdec_many2_ok; [reflexivity|]. now apply cmap_alt_ok.
Qed.

Theorem cbor_roundtrip s v r :
  conforms s v = true -> cwf v = true -> cbor_decode_as s (cbor_encode v ++ r) = Some (v, r).
Proof. apply cbor_roundtrip_all. Qed.

Corollary cbor_from_slice_encode s v :
  conforms s v = true -> cwf v = true -> cbor_from_slice s (cbor_encode v) = Some v.
Proof.
  intros Hs Hw. unfold cbor_from_slice.
  rewrite <- (app_nil_r (cbor_encode v)), cbor_roundtrip by assumption. reflexivity.
Qed.

Corollary cbor_encode_prefix_free s v1 v2 r1 r2 :
  conforms s v1 = true -> cwf v1 = true -> conforms s v2 = true -> cwf v2 = true ->
  cbor_encode v1 ++ r1 = cbor_encode v2 ++ r2 -> v1 = v2 /\ r1 = r2.
Proof.
  intros S1 W1 S2 W2 E.
  pose proof (cbor_roundtrip s v1 r1 S1 W1) as A. rewrite E, cbor_roundtrip in A by assumption.
  injection A as -> ->. auto.
Qed.
